"""Helpers of builder InsB for the inspector-group properties C02 (fail-closed
safety check), C03 (detection) and C06 (InspectWrapper as a pipe):

* protocol helpers (request lines, parallel driver batches, content codec),
* trait-combination image families (C02), signature overlays (C03),
* implementation-only instrumented runners used by the failing-input searches
  (they never look at the Lean model),
* the KF_F1 class predicate.

The layout builders themselves live in images.py (owned by builder InsA) and are
only imported here.
"""
import hashlib
import io
import logging
import os
import struct
import sys
import threading

import common
import whitebox
import images
import insp_impl
from common import req

K = 1024
ALLF = list(images.FORMATS)


def quiet():
    """the inspectors log every refused check at WARNING/ERROR: keep the check's output clean"""
    import ambient
    ambient.quiet_logger('oslo_utils.imageutils.format_inspector')


quiet()


class debug_logging:
    """with debug_logging(True): the module logger of format_inspector is at DEBUG with a real StreamHandler
    attached (to a scratch buffer), so lazily formatted log arguments are actually rendered; with False the
    logger stays silent (arguments are never formatted)"""

    def __init__(self, on):
        self.on = on

    def __enter__(self):
        if not self.on:
            return self
        self.lg = logging.getLogger('oslo_utils.imageutils.format_inspector')
        self.saved = (self.lg.level, logging.raiseExceptions)
        self.buf = io.StringIO()
        self.h = logging.StreamHandler(self.buf)
        self.h.setFormatter(logging.Formatter('%(levelname)s %(message)s'))
        self.lg.addHandler(self.h)
        self.lg.setLevel(logging.DEBUG)
        logging.raiseExceptions = False       # a handler swallows formatting errors; keep stderr clean
        return self

    def __exit__(self, *a):
        if self.on:
            self.lg.removeHandler(self.h)
            self.lg.setLevel(self.saved[0])
            logging.raiseExceptions = self.saved[1]
        return False


def fi():
    return insp_impl.fi()


# --------------------------------------------------------------------------
# protocol

def sizes_field(sizes):
    return ','.join(map(str, sizes)) or '-'


def eff_field(data, ops):
    """the read ops as the byte counts they deliver (what the model's request takes)"""
    return sizes_field(effective(len(data), ops))


def names_field(names):
    return ','.join(names) if names else '-'


def decode_content(field):
    """inverse of insp_impl.content_field"""
    if field == '-' or not field:
        return b''
    out = bytearray()
    for part in field.split('+'):
        if part[0] == 'z':
            out += bytes(int(part[1:]))
        elif part[0] == 'r':
            n, h = part[1:].split('x')
            out += bytes([int(h, 16)]) * int(n)
        else:
            out += bytes.fromhex(part)
    return bytes(out)


def insp_req(fmt, data, sizes):
    return req('insp', fmt, insp_impl.content_field(data), sizes_field(sizes), '0')


def wrap_req(allowed, expected, data, sizes):
    return req('wrap', names_field(allowed), expected or '-', insp_impl.content_field(data), eff_field(data, sizes))


def fault_req(allowed, expected, data, sizes, faults):
    fl = ','.join('%s@%d' % (n, k) for n, k in model_faults(faults, expected)) or '-'
    return req('fault', names_field(allowed), expected or '-', insp_impl.content_field(data),
               eff_field(data, sizes), fl)


def detect_req(data):
    return req('detect', insp_impl.content_field(data))


def ask_par(driver, lines, nproc=6):
    """ask_many over several driver processes (round-robin split, replies in request order)"""
    if len(lines) < 48 or nproc <= 1:
        return driver.ask_many(lines)
    parts = [lines[i::nproc] for i in range(nproc)]
    res = [None] * nproc
    errs = []

    def work(i):
        try:
            res[i] = driver.ask_many(parts[i])
        except BaseException as e:      # re-raised in the caller's thread
            errs.append(e)
    ts = [threading.Thread(target=work, args=(i,)) for i in range(nproc)]
    for t in ts:
        t.start()
    for t in ts:
        t.join()
    if errs:
        raise errs[0]
    out = [None] * len(lines)
    for i in range(nproc):
        out[i::nproc] = res[i]
    return out


def thin(ctx, items, keep=3):
    """in an ambient-sweep child the budget is about a third: every keep-th item (random phase), so every
    generator family stays represented"""
    if getattr(ctx, 'ambient', None) is None:
        return items
    off = ctx.rng.randrange(keep)
    return [x for k, x in enumerate(items) if k % keep == off]


def digest(data):
    return hashlib.sha1(data).hexdigest()[:16]


def verdict_fields(reply):
    """{'match','complete','vsize','safety','raised','ctx'} out of an `insp` reply or a verdict string"""
    out = {}
    for tok in reply.split('\t')[-1].split(' '):
        if '=' in tok:
            k, _, v = tok.partition('=')
            out[k] = v
    return out


# --------------------------------------------------------------------------
# KF_F1 (DESIGN.md section 6): VMDK streams that go through the offset-0 descriptor region

def in_class_f1(data):
    ok = (len(data) >= 64 and data[0:4] == b'KDMV' and
          struct.unpack('<I', data[4:8])[0] in (1, 2, 3))
    return not ok


# --------------------------------------------------------------------------
# implementation-only runners

FEED_KINDS = ('bytes', 'bytearray', 'memoryview')


def clean_header(fmt):
    """the first bytes of a clean image of the format (what a reused read buffer may hold afterwards)"""
    kw = {'body_len': 16} if fmt == 'luks' else ({'tail': 8} if fmt == 'vhdx' else {})
    return images.clean(fmt, **kw)[0]


def feed_inspector(fmt, data, sizes, feed='bytes', refill=None, forms=None):
    """Feed one real inspector the way the wrapper does (not fed again after it raised), finish.
    `feed`: how a chunk is presented - immutable bytes, or a view of ONE reused buffer (the
    `n = f.readinto(buf); eat_chunk(buf[:n])` idiom: bytearray slice copy / memoryview slice).  After the last
    chunk the buffer is overwritten with `refill` (default 0xEE): what the inspector concludes is a function
    of the bytes it was shown, not of what the caller does with its buffer afterwards."""
    F = fi()
    eat_kw = False
    if forms:            # (constructor tag, tracing value, eat_chunk by keyword): legal forms of the pinned signatures
        ctag, tracing, eat_kw = forms
        i = invoke(F.ALL_FORMATS[fmt], 'FileInspector', [tracing], ctag, shown=F.ALL_FORMATS[fmt].__name__)
    else:
        i = F.ALL_FORMATS[fmt]()
    raised = None
    chunks = insp_impl.cut(data, sizes)
    buf = bytearray(max([len(c) for c in chunks] + [1])) if feed != 'bytes' else None
    for chunk in chunks:
        if feed == 'bytes':
            arg = chunk
        else:
            n = len(chunk)
            buf[:n] = chunk
            if feed == 'memoryview':
                arg = memoryview(buf)[:n]
            else:                                   # a bytearray the caller keeps and clobbers afterwards
                arg = bytearray(n)
                arg[:] = chunk
        try:
            if eat_kw:
                i.eat_chunk(chunk=arg)
            else:
                i.eat_chunk(arg)
        except TypeError as e:
            if eat_kw and 'argument' in str(e):
                raise CallFormError('eat_chunk(chunk=<%d bytes>) is a legal call of the pinned signature but raises '
                                    'TypeError: %s' % (len(arg), e))
            raised = type(e).__name__
            break
        except Exception as e:
            raised = type(e).__name__
            break
        finally:
            if feed == 'bytearray':
                arg[:] = (refill or b'')[:len(arg)].ljust(len(arg), b'\xee')
    if buf is not None:
        fill = (refill or b'')[:len(buf)]
        buf[:len(fill)] = fill
        buf[len(fill):] = b'\xee' * (len(buf) - len(fill))
    try:
        i.finish()
    except Exception as e:
        raised = raised or ('finish:' + type(e).__name__)
    return i, raised


def safety_outcome(i):
    """'ok' | 'failed:<names>' | 'refused' | 'EXC:<type>' for one real inspector"""
    F = fi()
    try:
        r = i.safety_check()
    except F.SafetyCheckFailed as e:
        return 'failed:' + '+'.join(e.failures)
    except F.ImageFormatError:
        return 'refused'
    except Exception as e:
        return 'EXC:' + type(e).__name__
    return 'ok' if r is None else 'returned:%r' % (r,)


NAME_KINDS = ('str', 'enum', 'substr', 'weird')
_NAMES = {}


class _SubStr(str):
    pass


class _WeirdStr(str):
    """still equal to and hashing like the plain name; only its renderings differ"""

    def __str__(self):
        return 'DiskFormat<%s>' % str.__str__(self).upper()

    def __repr__(self):
        return '<weird name>'

    def __format__(self, spec):
        return 'formatted-name'


def as_name(kind, name):
    """the format name as an unusual but legal str: a (str, Enum) member, a plain str subclass, a subclass
    whose __str__ / __repr__ / __format__ are overridden.  All compare equal to (and hash like) the plain
    name, so the wrapper must treat them exactly like it."""
    if name is None or kind == 'str':
        return name
    key = (kind, name)
    if key not in _NAMES:
        if kind == 'enum':
            import enum
            _NAMES[key] = enum.Enum('DiskFormat', {name.upper() or 'EMPTY': name}, type=str)[name.upper() or 'EMPTY']
        elif kind == 'substr':
            _NAMES[key] = _SubStr(name)
        else:
            _NAMES[key] = _WeirdStr(name)
    return _NAMES[key]


def as_names(kind, names):
    if not names:
        return names
    seq = [as_name(kind, n) for n in names]
    return seq if kind != 'weird' else tuple(seq)       # any container supporting `in`


# --------------------------------------------------------------------------
# the pinned public interface (as DATA: the contract callers rely on; never read from the tree under test)
# name -> [(parameter, required?, default)]

PINNED = {
    'InspectWrapper': [('source', True, None), ('expected_format', False, None), ('allowed_formats', False, None)],
    'InspectWrapper.read': [('size', True, None)],
    'detect_file_format': [('filename', True, None)],
    'get_inspector': [('format_name', True, None)],
    'FileInspector': [('tracing', False, False)],
    'FileInspector.from_file': [('filename', True, None)],
    'FileInspector.eat_chunk': [('chunk', True, None)],
}


class CallFormError(Exception):
    """a legal call form of a pinned public signature was rejected (TypeError)"""


def call_tags(name, values):
    """every legal way of passing `values` (one per pinned parameter): per parameter P(ositional), K(eyword) or
    O(mitted - only an optional parameter whose value is its default); positionals form a prefix; a trailing
    'r' passes the keywords in reverse order"""
    params = PINNED[name]
    out = []

    def rec(i, tag):
        if i == len(params):
            out.append(tag)
            if tag.count('K') >= 2:
                out.append(tag + 'r')
            return
        pname, req, dflt = params[i]
        if 'K' not in tag and 'O' not in tag:
            rec(i + 1, tag + 'P')
        rec(i + 1, tag + 'K')
        if not req and values[i] == dflt and type(values[i]) is type(dflt):
            rec(i + 1, tag + 'O')
    rec(0, '')
    return out


def bind_form(name, values, tag):
    params = PINNED[name]
    rev = tag.endswith('r')
    tag = tag.rstrip('r')
    args = [v for (t, v) in zip(tag, values) if t == 'P']
    kws = [(p[0], v) for (t, p, v) in zip(tag, params, values) if t == 'K']
    if rev:
        kws.reverse()
    return args, dict(kws)


def render_call(name, values, tag, shown=None):
    args, kw = bind_form(name, values, tag)
    sh = lambda v: '<source>' if hasattr(v, 'read') or hasattr(v, '__next__') else \
        ('<%d bytes>' % len(v) if isinstance(v, (bytes, bytearray, memoryview)) else repr(v))
    return '%s(%s)' % (shown or name, ', '.join([sh(a) for a in args] + ['%s=%s' % (k, sh(v)) for k, v in kw.items()]))


def invoke(fn, name, values, tag, shown=None):
    """call `fn` with the logical `values` bound the way `tag` says; a TypeError from the binding itself is a
    CallFormError naming the form"""
    args, kw = bind_form(name, values, tag)
    try:
        import inspect
        inspect.signature(fn).bind(*args, **kw)
    except TypeError as e:
        raise CallFormError('%s is a legal call of the pinned signature but raises TypeError: %s'
                            % (render_call(name, values, tag, shown), e))
    except ValueError:
        pass
    return fn(*args, **kw)


def pick_tag(name, values, rng, p_default=0.5, default=None):
    tags = call_tags(name, values)
    if default is not None and default in tags and rng.random() < p_default:
        return default
    return rng.choice(tags)


ITER_PROTOS = ('next', 'for', 'for-break-resume', 'iter-next', 'two-iters', 'for-break-next')
DEFAULT_USAGE = {'form': None, 'read_kw': False, 'source': 'bytesio', 'proto': 'next', 'close_twice': False}


def usage(u=None, **kw):
    d = dict(DEFAULT_USAGE)
    d.update(u or {})
    d.update(kw)
    return d


def pick_insp_forms(rng, p_plain=0.6):
    """how a bare inspector is constructed and fed: FileInspector(tracing=False) positional / keyword / omitted,
    tracing on or off, eat_chunk(chunk) positional or by keyword"""
    if rng.random() < p_plain:
        return None
    tracing = rng.random() < 0.4
    return (rng.choice(call_tags('FileInspector', [tracing])), tracing, rng.random() < 0.5)


def pick_usage(rng, expected, allowed, iterator=False, p_plain=0.5):
    """how the public interface is used in one run: constructor call form, read(size) positionally or by
    keyword, the source (io.BytesIO or a real file), the iteration protocol, close() once or twice"""
    if rng.random() < p_plain:
        return dict(DEFAULT_USAGE)
    return {'form': pick_tag('InspectWrapper', [None, expected, allowed or None], rng, 0.2, 'PKK'),
            'read_kw': rng.random() < 0.4, 'source': rng.choice(['bytesio'] + list(FILELIKE_SOURCES)),
            'proto': rng.choice(ITER_PROTOS) if iterator else 'next', 'close_twice': rng.random() < 0.4}


def new_wrapper(src, expected, allowed, form=None):
    """InspectWrapper(source, expected_format=None, allowed_formats=None) called in the given legal form"""
    F = fi()
    if form is None:
        return F.InspectWrapper(src, expected_format=expected, allowed_formats=allowed or None)
    return invoke(F.InspectWrapper, 'InspectWrapper', [src, expected, allowed or None], form)


_SCRATCH = []


def scratch_dir():
    if not _SCRATCH:
        import atexit
        import shutil
        import tempfile
        d = tempfile.mkdtemp(prefix='verif-insb-')
        _SCRATCH.append(d)
        atexit.register(shutil.rmtree, d, True)
    return _SCRATCH[0]


class PipeLike:
    """a stream that offers read() and close() only in earnest: like a pipe or a socket file its optional
    methods exist but refuse (io.UnsupportedOperation / OSError).  The wrapper's protocol with its source is
    read(size) / iteration (and close() from close()); nothing else may matter."""

    def __init__(self, data, flavour='unsupported'):
        self._b = io.BytesIO(data)
        self.consumed = 0
        self.flavour = flavour
        self.closed_calls = 0

    def read(self, size=-1):
        r = self._b.read(size)
        self.consumed += len(r)
        return r

    def _refuse(self, *a, **k):
        if self.flavour == 'oserror':
            raise OSError(29, 'Illegal seek')
        raise io.UnsupportedOperation('underlying stream is not seekable')

    tell = seek = fileno = truncate = _refuse

    def seekable(self):
        if self.flavour == 'oserror':
            raise OSError(9, 'Bad file descriptor')
        return False

    @property
    def name(self):
        raise OSError(9, 'Bad file descriptor')

    def close(self):
        self.closed_calls += 1


class MinimalSource:
    """nothing but read(): no close, tell, seek, fileno, name"""
    __slots__ = ('_b', 'consumed')

    def __init__(self, data):
        self._b = io.BytesIO(data)
        self.consumed = 0

    def read(self, size=-1):
        r = self._b.read(size)
        self.consumed += len(r)
        return r


class NonsenseSource(PipeLike):
    """optional methods that answer, but with nonsense"""

    def tell(self):
        return 'somewhere'

    def seek(self, *a):
        return -5

    def seekable(self):
        return 'yes'

    def fileno(self):
        return -1

    name = None


FILELIKE_SOURCES = ('bytesio', 'file', 'pipe', 'pipe-oserror', 'minimal', 'nonsense', 'ospipe')


def open_source(data, kind):
    """a file-like source that honours read(None) / read(-1) / read(0): io.BytesIO, a real file, or a stream
    whose optional methods are absent / refuse / answer nonsense (pipe- and socket-like objects)"""
    if kind == 'file':
        path = os.path.join(scratch_dir(), 'src-%d' % threading.get_ident())
        with open(path, 'wb') as f:
            f.write(data)
        return open(path, 'rb')
    if kind == 'ospipe' and len(data) <= 32 * K:          # a real pipe (fits the kernel buffer)
        r, w_ = os.pipe()
        with os.fdopen(w_, 'wb') as wf:
            wf.write(data)
        return os.fdopen(r, 'rb')
    if kind in ('pipe', 'ospipe'):
        return PipeLike(data)
    if kind == 'pipe-oserror':
        return PipeLike(data, 'oserror')
    if kind == 'minimal':
        return MinimalSource(data)
    if kind == 'nonsense':
        return NonsenseSource(data)
    return insp_impl.Src(data)


def source_consumed(src, delivered):
    """how many bytes have been taken from the source (its own count where it has one)"""
    if hasattr(src, 'consumed'):
        return src.consumed
    try:
        return src.tell()
    except Exception:
        return delivered          # a real pipe: what was delivered is all we can know


class RefusingIterator:
    """an iterator source that also carries refusing optional methods"""

    def __init__(self, it):
        self._it = it

    def __iter__(self):
        return self

    def __next__(self):
        return next(self._it)

    def tell(self):
        raise io.UnsupportedOperation('tell')

    def seek(self, *a):
        raise OSError(29, 'Illegal seek')

    def fileno(self):
        raise io.UnsupportedOperation('fileno')


def effective(n, ops):
    """the number of bytes each read op returns from a source of n bytes: a non-negative int reads at most that
    many, None and negative sizes read everything that is left"""
    out, pos = [], 0
    for op in ops:
        k = n - pos if (op is None or op < 0) else min(op, n - pos)
        out.append(k)
        pos += k
    return out


def vary_ops(sizes, n, rng, source='bytesio'):
    """a read-size sequence with the unusual but legal sizes mixed in: zero-length reads before and between the
    real ones, None / -1 / -2 for 'everything left', reads after EOF"""
    ops = list(sizes)
    eff = effective(n, ops)
    pos = 0
    for k in range(len(ops)):
        if pos + eff[k] >= n and eff[k] > 0 and rng.random() < 0.6:
            # this read reaches EOF anyway: ask for everything (io.BytesIO takes any negative size, a real
            # file only -1)
            ops[k] = rng.choice([None, -1, -2, -1000] if source == 'bytesio' else [None, -1])
        pos += eff[k]
    for _ in range(rng.choice([0, 1, 1, 2, 3])):
        ops.insert(rng.randrange(len(ops) + 1), 0)
    if rng.random() < 0.5:
        ops.insert(0, 0)                                      # a zero-length read before any data
    ops += rng.choice([[], [0], [None], [-1, 0], [7, None]])
    return ops


def read_op(w, op, kw=False):
    return w.read(size=op) if kw else w.read(op)


def iterate(w, proto, nchunks, rng_seed=0):
    """yield the chunks of an iterable wrapper using the given protocol (at most nchunks+1 steps)"""
    if proto == 'next':
        while True:
            try:
                yield next(w)
            except StopIteration:
                return
    elif proto == 'for':
        for c in w:
            yield c
    elif proto == 'for-break-resume':
        cut = max(1, nchunks // 2)
        k = 0
        for c in w:
            yield c
            k += 1
            if k >= cut:
                break
        for c in w:                       # a second loop over the same wrapper streams the rest
            yield c
    elif proto == 'for-break-next':
        for c in w:
            yield c
            break
        while True:
            try:
                yield next(w)
            except StopIteration:
                return
    elif proto == 'iter-next':
        while True:
            try:
                yield next(iter(w))
            except StopIteration:
                return
    elif proto == 'two-iters':
        a, b = iter(w), iter(w)
        k = 0
        while True:
            try:
                yield next(a if k % 2 == 0 else b)
            except StopIteration:
                return
            k += 1
    else:
        raise ValueError(proto)


def show_dec(f):
    """render a property access as None / value / ('EXC', type)"""
    try:
        return f()
    except Exception as e:
        return ('EXC', type(e).__name__)


def _stream(w, data, ops, u, on_chunk):
    """drive a wrapper over its source the way `u` says (file-like reads with the given ops, or one of the
    iteration protocols over chunks cut by `ops`); on_chunk(k) after every chunk obtained.  Returns the
    exception that reached the caller, if any."""
    try:
        if u.get('iterator'):
            k = 0
            for _c in iterate(w, u['proto'], len(ops)):
                on_chunk(k)
                k += 1
        else:
            for k, op in enumerate(ops):
                read_op(w, op, u['read_kw'])
                on_chunk(k)
    except Exception as e:
        return e
    return None


def _wrapper_for(data, ops, allowed, expected, name_kind, u):
    if u.get('iterator'):
        src = iter(insp_impl.cut(data, effective(len(data), ops)))
        if u['source'] not in ('bytesio', 'file'):
            src = RefusingIterator(src)
    else:
        src = open_source(data, u['source'])
    return new_wrapper(src, as_name(name_kind, expected), as_names(name_kind, allowed), u['form'])


def wrap_trace(allowed, data, sizes, expected=None, name_kind='str', u=None):
    """Read `data` through a real InspectWrapper; the decision after every read and after close.
    A decision is (format, formats): format is None | name | 'EXC:<type>'; formats is None |
    sorted name tuple | 'EXC:<type>'.  Every decision is read twice in mid-stream and three times after close;
    `unstable` lists the points where the repeated reads did not agree.  `sizes` are read ops (ints, None,
    negative); `u` says how the public interface is used (see pick_usage)."""
    F = fi()
    u = usage(u)
    w = _wrapper_for(data, sizes, allowed, expected, name_kind, u)
    order = list(F.ALL_FORMATS)

    def once():
        try:
            f = w.format
            f = None if f is None else str(f)
        except Exception as e:
            f = 'EXC:' + type(e).__name__
        try:
            l = w.formats
            l = None if l is None else tuple(sorted((str(x) for x in l), key=order.index))
        except Exception as e:
            l = 'EXC:' + type(e).__name__
        return f, l
    unstable = []

    def decision(where):
        ds = [once(), once()] + ([once()] if where == 'after close' else [])     # twice in mid-stream, three times at the end
        if any(d != ds[0] for d in ds[1:]):
            unstable.append((where, ds))
        return ds[0]
    decs = []
    esc = _stream(w, data, sizes, u, lambda k: decs.append(decision('after read %d' % k)))
    escaped = type(esc).__name__ if esc is not None else None      # legitimate only as the expected inspector's cut-off (C06)
    close_escaped = None
    for _ in range(2 if u['close_twice'] else 1):
        try:
            w.close()
        except Exception as e:               # close() has no reason to raise at all
            close_escaped = type(e).__name__
    final = decision('after close')
    matches = {}
    for i in whitebox.w_inspectors(w):
        try:
            matches[i.NAME] = bool(i.format_match)
        except Exception as e:
            matches[i.NAME] = 'EXC:' + type(e).__name__
    return {'decisions': decs, 'final': final, 'escaped': escaped, 'close_escaped': close_escaped, 'matches': matches,
            'unstable': unstable, 'names': sorted(i.NAME for i in whitebox.w_inspectors(w)), 'wrapper': w}


def run_wrap_b(allowed, expected, data, sizes, name_kind='str', u=None):
    """insp_impl.run_wrap's rendering (the driver's `wrap` reply for the EFFECTIVE read sizes), with every
    decision read repeatedly (rendered UNSTABLE(...) if the reads disagree), names optionally passed as str
    subclasses and the public interface used the way `u` says"""
    F = fi()
    u = usage(u)
    w = _wrapper_for(data, sizes, allowed, expected, name_kind, u)

    def show(n=2):
        ds = [insp_impl.show_fmt(w) for _ in range(n)]
        return ds[0] if all(d == ds[0] for d in ds) else 'UNSTABLE(%s)' % '~'.join(ds)
    decisions = []
    e = _stream(w, data, sizes, u, lambda k: decisions.append(show()))
    if e is None:
        end = 'done'
    elif isinstance(e, F.ImageFormatError):
        end = 'mismatch' if 'does not match expected format' in str(e) else 'raised:ImageFormatError'
    else:
        end = 'raised:' + insp_impl.errname(e)
    for _ in range(2 if u['close_twice'] else 1):
        w.close()
    order = list(F.ALL_FORMATS)
    insps = sorted(whitebox.w_inspectors(w), key=lambda i: order.index(i.NAME))
    errd = whitebox.w_errored(w)
    per = ';'.join('%s%s %s' % (i.NAME, '!' if i in errd else '', insp_impl.show_verdict(i, None)) for i in insps)
    return '|'.join(decisions) + '\t' + end + '\t' + show(3) + '\t' + per


class CountingSource(io.BytesIO):
    pass


class Injected(RuntimeError):
    pass


EXC_TYPES = ['RuntimeError', 'struct.error', 'ValueError', 'KeyError', 'IndexError', 'ImageFormatError', 'OSError',
             'Exception', 'Custom', 'TypeError', 'AttributeError', 'ZeroDivisionError', 'AssertionError', 'EOFError',
             'LookupError', 'ArithmeticError', 'MemoryError', 'NotImplementedError']
_INJ = {}


def injected_class(tname):
    """a subclass of the named exception type, marked as injected (struct.error, ImageFormatError and a
    plain `class Custom(Exception)` included: the property speaks of any failure inside an inspector)"""
    if tname in _INJ:
        return _INJ[tname]
    import builtins
    if tname == 'struct.error':
        base = struct.error
    elif tname == 'ImageFormatError':
        base = fi().ImageFormatError
    elif tname == 'Custom':
        base = type('Custom', (Exception,), {})
    else:
        base = getattr(builtins, tname)
    if base is RuntimeError:
        cls = Injected
    else:
        cls = type('Injected_' + tname.replace('.', '_'), (base,), {'injected': True})
    _INJ[tname] = cls
    return cls


Injected.injected = True

EXC_SHAPES = ['one', 'noargs', 'empty', 'two', 'many', 'nonstr', 'none', 'badarg', 'badstr', 'badrepr', 'long', 'bytes']


class _BadText:
    def __str__(self):
        raise RuntimeError('str() of an exception argument raised')

    def __repr__(self):
        raise RuntimeError('repr() of an exception argument raised')


def injected_instance(spec, note):
    """spec = '<type>' or '<type>/<shape>': an exception object of that type whose SHAPE varies - no arguments,
    an empty message, several / non-string / None / bytes arguments, an argument whose str() and repr() raise,
    a class whose own __str__ / __repr__ raises, a very long message"""
    tname, _, shape = spec.partition('/')
    cls = injected_class(tname)
    shape = shape or 'one'
    if shape == 'one':
        return cls(note)
    if shape == 'noargs':
        return cls()
    if shape == 'empty':
        return cls('')
    if shape == 'two':
        return cls(2, note) if issubclass(cls, OSError) else cls(note, 'second argument')
    if shape == 'many':
        return cls(1, None, b'x', ('t',), 2.5)
    if shape == 'nonstr':
        return cls(12345)
    if shape == 'none':
        return cls(None)
    if shape == 'bytes':
        return cls(b'\xff\x00 not text')
    if shape == 'badarg':
        return cls(_BadText())
    if shape == 'long':
        return cls('x' * 300000)
    if shape in ('badstr', 'badrepr'):
        key = spec

        def boom(self):
            raise RuntimeError('__str__/__repr__ of the exception raised')
        if key not in _INJ:
            _INJ[key] = type(cls.__name__ + '_' + shape, (cls,),
                             {'__str__': boom} if shape == 'badstr' else {'__repr__': boom, '__str__': boom})
        return _INJ[key](note)
    raise ValueError('unknown exception shape %r' % shape)


def norm_fault(f):
    """(name, k) | (name, k, kind) -> (name, k, kind); kind is 'eat:<type>' (raised in front of eat_chunk on the
    inspector's k-th feed), 'post:<type>' (raised by post_process inside the k-th eat_chunk, after the
    position counter and the regions were updated), or 'complete' / 'format_match' (that property raises
    whenever it is read once the inspector has been fed its k-th chunk)"""
    # <type> may carry a shape: 'eat:ValueError/noargs' (see injected_instance)
    f = tuple(f)
    if len(f) == 2:
        return (f[0], int(f[1]), 'eat:RuntimeError')
    return (f[0], int(f[1]), f[2])


def model_faults(faults, expected):
    """what the stateless `fault` request can express: every eat/post fault as name@k (the model's fault is
    type-agnostic).  A fault in the complete / format_match property of a NON-expected inspector is dropped:
    the model's processLoop never evaluates those for other inspectors, so such a fault must be invisible."""
    out = []
    for name, k, kind in map(norm_fault, faults):
        if kind.startswith(('eat:', 'post:')):
            out.append((name, k))
        elif name == expected:
            raise ValueError('a property fault of the expected inspector is not expressible in the fault request')
    return sorted(set(out))


def pipe_trace(allowed, expected, data, sizes, faults, iterator=False, via_iter_protocol=False, name_kind='str', u=None):
    """Stream through a real InspectWrapper with faults injected into the inspectors (see norm_fault).
    Everything the C06 oracle needs is recorded here, on the implementation only."""
    F = fi()
    faults = [norm_fault(f) for f in faults]
    u = usage(u)
    ops = list(sizes)
    chunks = insp_impl.cut(data, effective(len(data), ops))
    yielded = [0]
    if iterator:
        def gen():
            for c in chunks:
                yielded[0] += 1
                yield c
        src = gen()
        if u['source'] not in ('bytesio', 'file'):
            src = RefusingIterator(src)
    else:
        src = open_source(data, u['source'])
    w = new_wrapper(src, as_name(name_kind, expected), as_names(name_kind, allowed), u['form'])
    cur = [0]
    fed_after_finish = []
    prop_reads = []       # (name, property, chunk index, raised?) - reads of a fault-carrying property
    events = {}           # name -> [(chunk index, 'ok' | exception object, complete, match)]
    for i in whitebox.w_inspectors(w):
        events[i.NAME] = []
        mine = [f for f in faults if f[0] == i.NAME]
        eatf = {k: kind for (_n, k, kind) in mine if kind.startswith('eat:')}
        postf = {k: kind for (_n, k, kind) in mine if kind.startswith('post:')}
        propf = {}
        for (_n, k, kind) in mine:
            if kind in ('complete', 'format_match'):
                exc = injected_class('RuntimeError' if kind == 'complete' else 'ValueError')(
                    'injected into %s.%s from feed %d' % (i.NAME, kind, k))
                if kind not in propf or k < propf[kind][0]:
                    propf[kind] = (k, exc)
        orig = type(i)
        feeds = [0]

        def make(i, real, eatf, postf, propf, orig, feeds):
            arm = [None]
            real_post = i.post_process

            def post_process():
                if arm[0] is not None:
                    exc, arm[0] = arm[0], None
                    raise exc
                return real_post()
            if postf:
                i.post_process = post_process

            def active(prop):
                return prop in propf and feeds[0] > propf[prop][0]

            def observed():
                """what _process_chunk would see when it reads complete, then format_match"""
                if active('complete'):
                    return propf['complete'][1], None
                comp = bool(orig.complete.fget(i))
                if not comp:
                    return comp, None
                if active('format_match'):
                    return comp, propf['format_match'][1]
                return comp, bool(orig.format_match.fget(i))

            def eat(chunk):
                k = feeds[0]
                feeds[0] += 1
                if whitebox.insp_finished(i):
                    # the wrapper finished this inspector and still feeds it: not a fault of the inspector
                    fed_after_finish.append((i.NAME, cur[0]))
                if k in eatf:
                    exc = injected_instance(eatf[k].split(':', 1)[1], 'injected %s@%d' % (i.NAME, k))
                    events[i.NAME].append((cur[0], exc, None, None))
                    raise exc
                if k in postf:
                    arm[0] = injected_instance(postf[k].split(':', 1)[1], 'injected into post_process %s@%d' % (i.NAME, k))
                    armed = arm[0]
                try:
                    r = real(chunk)
                except Exception as e:
                    events[i.NAME].append((cur[0], e, None, None))
                    raise
                try:
                    cm = observed()
                except Exception as e:       # format_match of a healthy inspector never raises
                    cm = (None, e)
                events[i.NAME].append((cur[0], 'ok', cm[0], cm[1]))
                return r

            if propf:
                def mkprop(prop):
                    def get(self):
                        if active(prop):
                            prop_reads.append((i.NAME, prop, cur[0], True))
                            raise propf[prop][1]
                        return getattr(orig, prop).fget(self)
                    return property(get)
                i.__class__ = type('Faulty' + orig.__name__, (orig,), {p: mkprop(p) for p in propf})
            return eat
        i.eat_chunk = make(i, i.eat_chunk, eatf, postf, propf, orig, feeds)
    out = []
    end = ('done', None)
    try:
        if iterator:
            for got in iterate(w, u['proto'], len(chunks)):
                out.append(got)
                cur[0] += 1
                if len(out) > len(chunks):
                    break
        else:
            for op in ops:
                out.append(read_op(w, op, u['read_kw']))
                cur[0] += 1
    except Exception as e:
        end = ('raised', e)
    if iterator:
        consumed = yielded[0]
    else:
        consumed = source_consumed(src, sum(len(c) for c in chunks[:len(out) + (0 if end[0] == 'done' else 1)]))
    close_escaped = None
    if end[0] == 'done':
        if iterator:
            if len(out) > len(chunks):
                end = ('extra-item', None)
            else:
                for _ in range(2):                      # next() after StopIteration keeps raising StopIteration
                    try:
                        next(w)
                        end = ('extra-item', None)
                    except StopIteration:
                        pass
        else:
            for _ in range(2 if u['close_twice'] else 1):
                try:
                    w.close()
                except Exception as e:
                    close_escaped = e
    elif not iterator:
        try:
            src.close()
        except Exception:
            pass
    return {'chunks': chunks, 'out': out, 'end': end, 'events': events, 'consumed': consumed,
            'fed_after_finish': fed_after_finish, 'prop_reads': prop_reads, 'close_escaped': close_escaped,
            'errored': {i.NAME for i in whitebox.w_errored(w)},
            'names': sorted(i.NAME for i in whitebox.w_inspectors(w)), 'finished': whitebox.w_finished(w)}


def render_trace(t):
    """the driver's canonical `fault` reply, rendered from an implementation trace (an injected exception of
    any type is the model's one fault kind, shown as RuntimeError)"""
    import zlib
    F = fi()
    end, exc = t['end']
    if end == 'raised':
        if getattr(exc, 'injected', False):
            e = 'raised:RuntimeError'
        elif isinstance(exc, F.ImageFormatError) and 'does not match expected format' in str(exc):
            e = 'mismatch'
        else:
            e = 'raised:' + insp_impl.errname(exc)
    else:
        e = end
    joined = b''.join(t['out'])
    head = 'out=%d:%d chunks=%d end=%s' % (len(joined), zlib.adler32(joined) & 0xffffffff, len(t['out']), e)
    order = list(F.ALL_FORMATS)
    per = ';'.join('%s%s:%s' % (n, '!' if n in t['errored'] else '',
                                ','.join(str(k) for (k, _r, _c, _m) in t['events'][n]))
                   for n in sorted(t['names'], key=order.index))
    return head + '\t' + per


# --------------------------------------------------------------------------
# C02: trait-combination images.  Every item is a dict
#   fmt, label, data, bounds, expect ('unsafe' = must not be accepted, 'clean' = must be accepted,
#   'free' = the property does not say), f1 (built to sit in class KF_F1)

def _item(fmt, label, built, expect, f1=False, cli=None):
    """`cli` is the expectation for the same bytes as a *file*: an image that does not even look like
    its format (bad magic, truncated) is legitimately detected as something else, e.g. raw"""
    data, bounds = built
    return {'fmt': fmt, 'label': label, 'data': data, 'bounds': list(bounds), 'expect': expect, 'f1': f1,
            'cli': expect if cli is None else cli}


def _truncs(item, complete_at, rng, limit=None):
    """truncations at every structure boundary: shorter than the point where the inspector is
    complete -> must not be accepted"""
    out = []
    bs = sorted({b for b in item['bounds'] if 0 <= b < len(item['data'])} | {0, 1})
    if limit is not None and len(bs) > limit:
        bs = sorted(rng.sample(bs, limit))
    for b in bs:
        d = item['data'][:b]
        exp = 'unsafe' if b < complete_at else item['expect']
        out.append({'fmt': item['fmt'], 'label': item['label'] + '/trunc@%d' % b, 'data': d,
                    'bounds': [x for x in item['bounds'] if x < b], 'expect': exp, 'f1': item['f1'],
                    'cli': 'free' if b < complete_at else item['cli']})
    return out


def _u64s(rng):
    return rng.choice([0, 1, 511, 512, 10 * K * K, 2 ** 32 - 1, 2 ** 32, 2 ** 63, 2 ** 64 - 1, rng.getrandbits(64)])


def qcow_irrelevant(rng):
    return dict(size=_u64s(rng), cluster_bits=rng.choice([0, 9, 16, 21, 2 ** 32 - 1]),
                bf_size=rng.choice([0, 0, 1, 1023, 2 ** 32 - 1]),
                compat=rng.choice([0, 1, rng.getrandbits(64)]), autoclear=rng.choice([0, 1, rng.getrandbits(64)]),
                header_fill=rng.choice([0, 0, 0xff, 0x41, rng.randrange(256)]),
                total=rng.choice([512, 513, 1024, 2048]),
                body=bytes(rng.getrandbits(8) for _ in range(rng.choice([0, 0, 7, 100]))))


def qcow_expect(version, bf_offset, features):
    """by construction, from the trait values (never from the bytes)"""
    if version not in (2, 3) or bf_offset != 0:
        return 'unsafe'
    if version == 3 and (features & 4 or features >> 4):
        return 'unsafe'                 # external data file / unknown incompatible feature
    if features == 0:
        return 'clean'
    return 'free'                       # known feature bits 0, 1, 3; a v2 header has no feature word


BF_CLASSES = [0, 1, 2 ** 63, 2 ** 64 - 1]
QCOW_VERSIONS = [0, 1, 2, 3, 4, 5, 2 ** 16 + 2, 2 ** 31, 2 ** 32 - 2, 2 ** 32 - 1, 0x02000000, 0x03000000]


def qcow_family(rng, quick):
    out = []

    def add(label, version, bf, feat, **kw):
        f = dict(qcow_irrelevant(rng))
        f.update(kw)
        out.append(_item('qcow2', 'qcow2/' + label, images.qcow2(version=version, bf_offset=bf, features=feat, **f),
                         qcow_expect(version, bf, feat) if 'magic' not in kw else 'unsafe',
                         cli='free' if 'magic' in kw else None))
    for v in (2, 3):
        add('clean-v%d' % v, v, 0, 0)
        add('clean-v%d-plain' % v, v, 0, 0, header_fill=0, compat=0, autoclear=0)
    for bit in range(64):
        add('feature-bit-%d' % bit, 3, 0, 1 << bit)
    for _ in range(12 if quick else 200):
        dens = rng.choice([1, 2, 3, 8, 32, 64])
        feat = 0
        for _ in range(dens):
            feat |= 1 << rng.randrange(64)
        if rng.random() < 0.3:
            feat &= 0xb                                  # only known bits
        add('feature-set-%x' % feat, 3, 0, feat)
    for feat in (4, 0xb, 0x10, 1 << 63):
        add('v2-feature-%x' % feat, 2, 0, feat)
    for v in QCOW_VERSIONS + [rng.getrandbits(32)]:
        add('version-%d' % v, v, 0, 0)
    for bf in BF_CLASSES + [512, rng.getrandbits(64) | 1]:
        for v in (2, 3):
            add('backing-%d-v%d' % (bf, v), v, bf, 0)
    for _ in range(6 if quick else 80):
        v = rng.choice(QCOW_VERSIONS)
        bf = rng.choice(BF_CLASSES)
        feat = rng.choice([0, 0, 4, 1 << rng.randrange(64), rng.getrandbits(64)])
        add('combo-v%d-bf%d-f%x' % (v, bf, feat), v, bf, feat)
    add('bad-magic', 3, 0, 0, magic=b'QFI\xfa')
    base = _item('qcow2', 'qcow2/clean', images.qcow2(total=1024), 'clean')
    out += _truncs(base, 512, rng)
    return out


def qed_family(rng, quick):
    out = []
    for total in (512, 1024, 4096):
        out.append(_item('qed', 'qed/any-%d' % total, images.qed(total=total), 'unsafe'))
    out.append(_item('qed', 'qed/bad-magic', images.qed(magic=b'QED\x01'), 'unsafe', cli='free'))
    out += _truncs(out[1], 512, rng)
    return out


def luks_family(rng, quick):
    out = []
    for v in [1, 0, 2, 3, -1, 256, 257, 32767, -32768, rng.randrange(4, 30000)]:
        po = rng.choice([0, 8, 4096, 2 ** 32 - 1])
        bl = rng.choice([0, 1, 100, 2000])
        out.append(_item('luks', 'luks/version-%d' % v, images.luks(version=v, payload_offset=po, body_len=bl),
                         'clean' if v == 1 else 'unsafe'))
    out.append(_item('luks', 'luks/bad-magic', images.luks(magic=b'LUKS\xba\xbf', body_len=10), 'unsafe', cli='free'))
    out += _truncs(_item('luks', 'luks/clean', images.luks(body_len=50), 'clean'), 592, rng)
    return out


# MBR entry kinds of the bounded family: (tag, pte kwargs, non-empty?, protective?, valid-by-itself?)
def _pte_kinds(rng):
    junk = dict(end=(rng.randrange(256), rng.randrange(256), rng.randrange(256)), size=rng.getrandbits(32))
    return [
        ('e', dict(boot=0, ostype=0, chs=(0, 0, 0), lba=0, size=0)),
        ('E', dict(boot=0x80, ostype=0, chs=(1, 2, 3), lba=rng.getrandbits(32), **junk)),   # empty, junk fields
        ('x', dict(boot=rng.choice([1, 0x40, 0x7f, 0x81, 0xff]), ostype=0, lba=0)),          # type 0 with a length, bad boot flag
        # unused slots (type 0 and zero sectors) with an invalid boot indicator: all-zero otherwise / stale CHS+LBA
        ('y', dict(boot=rng.choice([1, 0x0a, 0x40, 0x7f, 0x81, 0xfe, 0xff]), ostype=0, chs=(0, 0, 0), end=(0, 0, 0),
                   lba=0, size=0)),
        ('w', dict(boot=rng.choice([1, 0x0a, 0x7f, 0x81, 0xff]), ostype=0, chs=(rng.randrange(256), rng.randrange(256), 7),
                   end=(rng.randrange(256), 0xff, 0xff), lba=rng.choice([0, 1, 63, 2048, rng.getrandbits(32)]), size=0)),
        ('F', dict(boot=0x80, ostype=0, chs=(rng.randrange(256), 2, 0), end=(1, 2, 3), lba=rng.getrandbits(32), size=0)),
        ('L', dict(boot=0, ostype=rng.choice([0x83, 0x07, 0x0c, 0xa5, 0xef, 0xff, 1]), lba=rng.getrandbits(32), **junk)),
        ('B', dict(boot=0x80, ostype=0x83, chs=(rng.randrange(256), 2, 0), lba=2048, **junk)),
        ('X', dict(boot=rng.choice([1, 2, 0x08, 0x7f, 0x81, 0xfe, 0xff]), ostype=0x83, lba=2048)),
        ('G', dict(boot=0, ostype=0xEE, chs=(0, 2, 0), lba=1, **junk)),
        ('H', dict(boot=0x80, ostype=0xEE, chs=(0, 2, 0), lba=1, size=0xffffffff)),
        ('C', dict(boot=0, ostype=0xEE, chs=rng.choice([(0, 1, 0), (1, 2, 0), (0, 2, 1), (0, 0, 0), (0xff, 0xff, 0xff)]),
                   lba=1)),
        ('A', dict(boot=0, ostype=0xEE, chs=(0, 2, 0), lba=rng.choice([0, 2, 0x100, 0x01000000, 2 ** 32 - 1]))),
    ]


def gpt_expect(tags):
    """by construction: boot flags valid; every protective entry well-formed, first and alone; >= 1 partition"""
    if any(t in 'xywX' for t in tags):          # an invalid boot indicator, on whatever kind of entry
        return 'unsafe'
    if any(t in 'CA' for t in tags):
        return 'unsafe'
    nonempty = [i for i, t in enumerate(tags) if t not in 'eExywF']
    if any(t in 'GH' for t in tags) and nonempty != [0]:
        return 'unsafe'
    if not nonempty:
        return 'unsafe'
    return 'clean'


def gpt_family(rng, quick):
    import itertools
    out = []
    combos = []
    # all 2^4 occupancies x {plain, protective} types x valid boot flags
    for tags in itertools.product('eLG', repeat=4):
        combos.append(tags)
    for tags in itertools.product('eB', repeat=4):
        combos.append(tags)
    allk = 'eExywFLBXGHCA'
    # every single deviation from clean tables (protective; one partition first / in the middle; two partitions)
    for base0 in ('Geee', 'Leee', 'eeBe', 'LeeB', 'eeeL'):
        for pos in range(4):
            for t in allk:
                base = list(base0)
                base[pos] = t
                combos.append(tuple(base))
    if quick:
        for _ in range(140):
            combos.append(tuple(rng.choice(allk) for _ in range(4)))
    else:
        combos += list(itertools.product('eExLBXGHCA', repeat=4))
        for _ in range(3000):
            combos.append(tuple(rng.choice(allk) for _ in range(4)))
    seen = set()
    for tags in combos:
        if tags in seen:
            continue
        seen.add(tags)
        kinds = dict(_pte_kinds(rng))
        ptes = [images.pte(**kinds[t]) for t in tags]
        out.append(_item('gpt', 'gpt/table-' + ''.join(tags),
                         images.gpt(ptes=ptes, total=rng.choice([512, 513, 1024]),
                                    code_fill=rng.choice([0, 0, 0x90, 0xff])),
                         gpt_expect(tags)))
    # the protective entry must start at CHS exactly (head 0, sector byte 2, cylinder byte 0) and LBA exactly 1:
    # every other value of each CHS byte with the other two correct (3 x 255), pairs / triples of deviating
    # bytes, every single-bit flip of the start LBA and other values of each of its bytes
    def prot(label, chs, lba, expect):
        boot = rng.choice([0, 0, 0x80])
        it = _item('gpt', 'gpt/protective-' + label,
                   images.gpt(ptes=[images.pte(boot=boot, ostype=0xEE, chs=chs, lba=lba, size=rng.choice([1, 0xffffffff]))],
                              total=rng.choice([512, 1024])), expect)
        it['maxk'] = 2
        out.append(it)
    good = (0, 2, 0)
    prot('chs-000200-lba-1', good, 1, 'clean')
    for pos in range(3):
        for v in range(256):
            if v != good[pos]:
                chs = list(good)
                chs[pos] = v
                prot('chs-%02x%02x%02x' % tuple(chs), tuple(chs), 1, 'unsafe')
    for _ in range(60 if quick else 3000):
        chs = [rng.choice([good[p], rng.randrange(256), 1 << rng.randrange(8), good[p] ^ (1 << rng.randrange(8))])
               for p in range(3)]
        if tuple(chs) != good:
            prot('chs-%02x%02x%02x' % tuple(chs), tuple(chs), 1, 'unsafe')
    for bit in range(32):
        prot('lba-%08x' % (1 ^ (1 << bit)), good, 1 ^ (1 << bit), 'unsafe')
    for pos in range(4):
        for v in (range(256) if not quick else rng.sample(range(256), 24)):
            lba = (1 & ~(0xff << (8 * pos))) | (v << (8 * pos))
            if lba != 1:
                prot('lba-%08x' % lba, good, lba, 'unsafe')
    for _ in range(10 if quick else 300):
        lba = rng.getrandbits(32)
        if lba != 1:
            prot('chs-ok-lba-%08x' % lba, good, lba, 'unsafe')
    out.append(_item('gpt', 'gpt/bad-signature', images.gpt(signature=0xAA54), 'unsafe', cli='free'))
    out.append(_item('gpt', 'gpt/fat-lookalike', images.gpt(fat=True), 'unsafe', cli='free'))
    out += _truncs(_item('gpt', 'gpt/clean', images.gpt(total=1024), 'clean'), 512, rng)
    return out


CREATE_TYPES_OK = ['monolithicSparse', 'streamOptimized', 'MONOLITHICSPARSE', 'StreamOptimized', 'monolithicsparse',
                   'sTREAMoPTIMIZED']
CREATE_TYPES_BAD = ['monolithicFlat', 'vmfs', 'twoGbMaxExtentSparse', 'twoGbMaxExtentFlat', 'fullDevice', 'custom',
                    'vmfsSparse', 'partitionedDevice', '', ' monolithicSparse', 'monolithicSparse ', 'monolithicSparse2',
                    'monolithic Sparse', 'x' * 63, 'm' * 64, 'monolithicSparse' * 5, 'streamOptimised']
LINES_OK = ['# another comment', '', '   ', '\t', 'ddb.uuid = "60 00 c2 9b"', 'ddb.geometry.cylinders = "2"',
            'encoding="UTF-8"', 'RDONLY 100 FLAT "flat.vmdk" 0', 'NOACCESS 1 ZERO', 'rw 5 sparse "b.vmdk"',
            'changeTrackPath="x.ctk"', '  RW 7 SPARSE "indented.vmdk"', 'ddbanything goes here']
LINES_BAD = ['hello world', 'RWX 1 SPARSE "a.vmdk"', 'foo = bar', 'READ 1 FLAT "a" 0', '"quoted"', 'version 1',
             'parentFileNameHint /etc/passwd', 'RW\t2048 SPARSE "tab.vmdk"', 'junk', '-', 'a b=c', '\x01\x02',
             'Rdonly2 1 FLAT "x" 0']
EXTENTS_PATH = ['RW 2048 SPARSE "/etc/passwd"', 'RW 1 FLAT "../../etc/shadow" 0', 'RDONLY 7 VMFS "a/b.vmdk"',
                'NOACCESS 1 FLAT "/dev/sda" 0', 'RW 4 SPARSE "sub/disk.vmdk"', 'rw 1 sparse "/"', 'RW 1 SPARSE x/y']
EXTENTS_OK = ['RW 2048 SPARSE "disk.vmdk"', 'RDONLY 1 FLAT "disk-flat.vmdk" 0', 'NOACCESS 0 ZERO',
              'RW 1 SPARSE "C:\\\\disk.vmdk"', 'RW 99999999999 SPARSE "a b.vmdk"']
GD_AT_END = images.GD_AT_END


def vmdk_irrelevant(rng):
    return dict(sectors=rng.choice([0, 1, 2048, 2 ** 32, 2 ** 55, 2 ** 64 - 1]), header_fill=rng.choice([0, 0, 0xff, 0x20]),
                body=rng.choice([0, 1, 700, 1500, 2000]), desc_num=rng.choice([1, 2, 2, 3, 20]),
                ver=rng.choice([1, 1, 2, 3]))


def vmdk_family(rng, quick):
    out = []

    def add(label, expect, cli=None, **kw):
        f = dict(vmdk_irrelevant(rng))
        f.update(kw)
        if 'desc_num' not in kw:
            # the descriptor region announced by the header must hold the whole descriptor text,
            # otherwise a trait line would lie outside the descriptor
            d = f.get('desc')
            if d is None:
                d = images.vmdk_desc(f.get('typ', 'monolithicSparse'), f.get('extent', 'RW 2048 SPARSE "disk.vmdk"'),
                                     f.get('extra', ()), f.get('lines'))
            f['desc_num'] = max(f['desc_num'], len(d) // 512 + 1)
        out.append(_item('vmdk', 'vmdk/' + label, images.vmdk(**f), expect, cli=cli))
    for t in CREATE_TYPES_OK:
        add('type-%s' % t, 'clean', typ=t)
    for t in CREATE_TYPES_BAD:
        add('type-%r' % t[:24], 'unsafe', typ=t)
    # spellings of the key itself / missing / unquoted
    base = list(images.DESC_LINES)
    for lab, line, exp in [('key-upper', 'CREATETYPE="monolithicSparse"', 'clean'),
                           ('key-mixed', 'CreateType="streamOptimized"', 'clean'),
                           ('key-unquoted', 'createType=monolithicSparse', 'unsafe'),
                           ('key-spaced', 'createType = "monolithicSparse"', 'unsafe'),
                           ('key-single-quote', "createType='monolithicSparse'", 'unsafe'),
                           ('key-missing', '# no create type here', 'unsafe'),
                           ('key-unterminated', 'createType="monolithicSparse', 'unsafe')]:
        ls = [line if l.startswith('createType') else l for l in base]
        add('createtype-' + lab, exp, lines=ls)
    for i, l in enumerate(LINES_OK):
        add('line-ok-%d' % i, 'clean', extra=(l,))
    for i, l in enumerate(LINES_BAD):
        add('line-bad-%d' % i, 'unsafe', extra=(l,))
    add('line-non-ascii', 'unsafe', desc=images.vmdk_desc() + b'ddb.comment = "\xe9"\n')
    add('no-extent', 'unsafe', extent='')
    add('no-extent-comment', 'unsafe', extent='# RW 2048 SPARSE "disk.vmdk"')
    for i, e in enumerate(EXTENTS_PATH):
        add('extent-path-%d' % i, 'unsafe', extent=e)
        add('extent-path-extra-%d' % i, 'unsafe', extra=(e,))
    for i, e in enumerate(EXTENTS_OK):
        add('extent-ok-%d' % i, 'clean', extent=e)
    # every ASCII control byte (and DEL) inside an LF-delimited line: the descriptor's line separator is LF
    # only, so an extent line stays ONE extent line (naming a path -> unsafe) and a comment line stays a
    # comment (no extent -> unsafe), whatever follows the control byte
    ctrls = [c for c in range(1, 32) if c != 10] + [127]
    tails = ['ddb/../../../etc/passwd', '#/etc/passwd', 'file=/etc/passwd', 'ddb.x = "/dev/sda', 'RW 1 SPARSE /x']
    for c in ctrls:
        ch = chr(c)
        for tail in ([rng.choice(tails[:3])] if quick else tails):
            add('ctrl-%02x-extent-path-%s' % (c, tail[:3].strip()), 'unsafe',
                extent='RW 2048 SPARSE "x%s%s"' % (ch, tail))
        add('ctrl-%02x-comment-then-extent' % c, 'unsafe', extent='# note%sRW 2048 SPARSE "disk.vmdk"' % ch)
        if not quick or rng.random() < 0.4:
            add('ctrl-%02x-second-extent-path' % c, 'unsafe',
                extra=('RDONLY 1 FLAT "a.vmdk"%s%s' % (ch, rng.choice(['ddb /etc/passwd', '# /etc', 'x=/'])),))
            add('ctrl-%02x-junk-then-ddb' % c, 'unsafe', extra=('junk words%sddb.x = "1"' % ch,))
            add('ctrl-%02x-in-ddb-line' % c, 'clean', extra=('ddb.comment = "a%sb"' % ch,))
    add('descriptor-missing', 'unsafe', desc=b'')
    add('descriptor-nul-first', 'unsafe', desc=b'\0' + images.vmdk_desc())
    for ds in (0, 2, 3, 2 ** 32, 2 ** 63, 2 ** 64 - 1):
        add('descriptor-misplaced-%d' % ds, 'unsafe', desc_sec=ds)
    add('descriptor-zero-sectors', 'unsafe', desc_num=0)
    for v in (0, 4, 5, 2 ** 31, 2 ** 32 - 1, 0x01000000):
        add('version-%d' % v, 'unsafe', ver=v)
    add('bad-signature', 'unsafe', cli='free', sig=b'KDMW')
    # footer: clean, then every field perturbed
    add('footer-clean', 'clean', footer=True)
    add('footer-clean-val', 'clean', footer=True, fm_val=rng.getrandbits(64))
    pert = [('f_ver', [0, 2, 4, 2 ** 32 - 1]), ('f_desc_sec', [0, 2, 2 ** 40]), ('f_desc_num', [0, 1, 99, 2 ** 63]),
            ('f_gd', [GD_AT_END]), ('f_sig', [b'KDMW', b'\0\0\0\0', b'kdmv']), ('fm_size', [1, 512, 2 ** 32 - 1]),
            ('fm_type', [0, 1, 2, 4, 2 ** 32 - 1]), ('fm_pad', [b'\x01', b'\xff']),
            ('eos_val', [1, 2 ** 63]), ('eos_size', [1, 2 ** 32 - 1]), ('eos_type', [1, 3, 2 ** 32 - 1]),
            ('eos_pad', [b'\x01', b' '])]
    for field, vals in pert:
        for v in vals:
            kw = {field: v, 'footer': True, 'desc_num': 2}
            if field == 'f_ver':
                kw['ver'] = 1 if v != 1 else 2
            add('footer-%s-%r' % (field, v), 'unsafe', **kw)
    add('footer-and-path', 'unsafe', footer=True, extent=EXTENTS_PATH[0])
    # descriptor areas at and beyond the DESC_MAX_SIZE clamp (2048 sectors): the image really carries
    # the >= 1 MiB descriptor area (NUL padding, run-length encoded on the wire); a footer whose
    # desc_num differs from the header's contradicts it, however large both are
    bigpairs = [(2048, 2049), (4096, 2048), (2049, 4096), (2048, 2 ** 40), (2049, 2048), (2048, 2047), (4096, 1),
                (2 ** 20, 2 ** 21)]
    for hn, fn in (bigpairs[:3] if quick else bigpairs):
        add('footer-bigdesc-%d-f_desc_num-%d' % (hn, fn), 'unsafe', footer=True, desc_num=hn, f_desc_num=fn,
            body=rng.choice([0, 700]))
    for hn in ((2048,) if quick else (2048, 2049, 4096)):
        add('footer-bigdesc-%d-clean' % hn, 'clean', footer=True, desc_num=hn, body=rng.choice([0, 700]))
    if not quick:
        add('bigdesc-4096-path', 'unsafe', desc_num=4096, extent=EXTENTS_PATH[0])
    clean = _item('vmdk', 'vmdk/clean', images.vmdk(desc_num=2), 'clean')
    out += _truncs(clean, 512 + 1024, rng)
    foot = _item('vmdk', 'vmdk/footer-clean', images.vmdk(desc_num=2, footer=True, body=600), 'clean')
    out += _truncs(foot, len(foot['data']), rng)
    return out


def vmdk_f1_family(rng, quick):
    """streams that go through the offset-0 descriptor (class KF_F1): text descriptors and KDMV
    headers whose version field is text.  Unsafe ones must still be refused."""
    out = []
    padl = ['# padding line %04d ............................................' % i for i in range(80)]   # > 4096 bytes
    for i, e in enumerate(EXTENTS_PATH[:3 if quick else 7]):
        out.append(_item('vmdk', 'vmdk-text/path-late-%d' % i, images.vmdk_text(extra=tuple(padl) + (e,)), 'unsafe', True))
        out.append(_item('vmdk', 'vmdk-text/path-early-%d' % i, images.vmdk_text(extent=e), 'unsafe', True))
    for i, l in enumerate(LINES_BAD[:3 if quick else 9]):
        out.append(_item('vmdk', 'vmdk-text/bad-line-late-%d' % i, images.vmdk_text(extra=tuple(padl) + (l,)), 'unsafe', True))
    for t in CREATE_TYPES_BAD[:3 if quick else 9]:
        out.append(_item('vmdk', 'vmdk-text/type-%r' % t[:20], images.vmdk_text(typ=t), 'unsafe', True))
    out.append(_item('vmdk', 'vmdk-text/no-extent', images.vmdk_text(extent=''), 'unsafe', True))
    out.append(_item('vmdk', 'vmdk-text/clean', images.vmdk_text(), 'free', True))
    out.append(_item('vmdk', 'vmdk-text/clean-padded', images.vmdk_text(extra=tuple(padl)), 'free', True))
    # a KDMV header whose version field is text and which carries a passing descriptor in its
    # first 64 bytes: version not in {1,2,3} -> must not be accepted
    hdr = b'KDMVcreateType="monolithicSparse"\nRW 1 SPARSE "x"\n#'
    hdr = hdr + b'#' * (64 - len(hdr))
    out.append(_item('vmdk', 'vmdk-text/kdmv-text-header', (hdr + b'\n' * 600, [4, 50, 63, 64, 65]), 'unsafe', True))
    return out


def null_family(rng, quick):
    """raw, vhd, vdi, iso, vhdx: a null check; accepted iff complete and matching"""
    out = []
    out.append(_item('raw', 'raw/zeros', images.raw(size=1000), 'clean'))
    out.append(_item('raw', 'raw/empty', (b'', []), 'clean'))
    out.append(_item('raw', 'raw/random', (bytes(rng.getrandbits(8) for _ in range(777)), [100, 512]), 'clean'))
    vhd = _item('vhd', 'vhd/clean', images.vhd(size=_u64s(rng)), 'clean')
    out += [vhd] + _truncs(vhd, 512, rng)
    out.append(_item('vhd', 'vhd/bad-magic', images.vhd(magic=b'conectiy'), 'unsafe', cli='free'))
    vdi = _item('vdi', 'vdi/clean', images.vdi(size=_u64s(rng)), 'clean')
    out += [vdi] + _truncs(vdi, 512, rng)
    out.append(_item('vdi', 'vdi/bad-signature', images.vdi(signature=0xbeda107e), 'unsafe', cli='free'))
    iso = _item('iso', 'iso/clean', images.iso(total=rng.choice([34 * K, 40 * K])), 'clean')
    out += [iso] + _truncs(iso, 34 * K, rng, limit=4 if quick else None)
    for ident in (b'NSR02', b'NSR03'):
        out.append(_item('iso', 'iso/udf-%s' % ident.decode(), images.iso(ident=ident, total=34 * K), 'clean'))
    out.append(_item('iso', 'iso/bad-ident', images.iso(ident=b'CD002', total=34 * K), 'unsafe', cli='free'))
    vhdx = _item('vhdx', 'vhdx/clean', images.vhdx(tail=8), 'clean')
    out.append(vhdx)
    # a VHDX is complete once the size item (8 bytes at meta_off + item_off) has been captured
    out += _truncs(vhdx, 0x100000 + 0x10000 + 8, rng, limit=2 if quick else 8)
    return out


FAMILIES = [('qcow2', qcow_family), ('vmdk', vmdk_family), ('vmdk-f1', vmdk_f1_family), ('qed', qed_family),
            ('luks', luks_family), ('gpt', gpt_family), ('null', null_family)]


def c02_items(rng, quick):
    out = []
    for name, fam in FAMILIES:
        out += fam(rng, quick)
    return out


def f1_chunkings(item):
    """chunkings that move the unsafe line out of the first chunk / split the first 64 bytes"""
    n = len(item['data'])
    out = [[n]]
    for k in (4, 5, 50, 63, 64, 65, 100, 512, 4096):
        if k < n:
            out.append([k, n - k])
    for cs in (512, 4096):
        if cs < n:
            out.append(images.sizes_from_cuts(list(range(cs, n, cs)), n))
    return out


def pick_chunkings(item, rng, k):
    n = len(item['data'])
    big = n > 64 * K
    alls = images.chunkings(n, item['bounds'], rng, small=True)
    if big:                                   # keep the number of chunks of large streams moderate
        alls = [s for s in alls if len(s) <= 600]
    if item['f1']:
        head = f1_chunkings(item)
        return head + rng.sample(alls, min(len(alls), max(1, k - len(head))))
    if item.get('maxk'):
        k = min(k, item['maxk'])
    first = [alls[0]]
    rest = alls[1:]
    if big:
        k = min(k, 3)
    return first + rng.sample(rest, min(len(rest), max(0, k - 1)))


# --------------------------------------------------------------------------
# C03: overlays of format signatures on backgrounds

FAT = [(0x10, b'\x02'), (0x15, b'\xf8')]
SIG_NAMES = sorted(images.SIGNATURES)


def background(kind, n, rng):
    if kind == 'zero':
        return bytes(n)
    if kind == 'random':
        return bytes(rng.getrandbits(8) for _ in range(n)) if n <= 4096 else \
            (bytes(rng.getrandbits(8) for _ in range(4096)) * (n // 4096 + 1))[:n]
    if kind == 'ff':
        return b'\xff' * n
    words = ['# comment', 'key=value', 'RW 1 SPARSE "x"', 'hello world', 'ddb.a = "1"', '']
    if rng.random() < 0.5:
        words.append(rng.choice(['createType="vmfs"', 'createType="monolithicSparse"', 'CREATETYPE="streamOptimized"']))
    s = bytearray()
    while len(s) < n:
        s += (rng.choice(words) + '\n').encode()
    return bytes(s[:n])


def overlay(bg, names, rng, fat=False):
    """write the signature bytes of `names` (in the given order; later ones win where they overlap)"""
    b = bytearray(bg)
    for nm in names:
        sigs = images.SIGNATURES[nm]
        if nm == 'iso':
            sigs = [(sigs[0][0], rng.choice([b'CD001', b'NSR02', b'NSR03']))]
        for off, sig in sigs:
            if off + len(sig) <= len(b):
                b[off:off + len(sig)] = sig
    if fat:
        for off, sig in FAT:
            if off < len(b):
                b[off:off + 1] = sig
    return bytes(b)


def signature_present(name, data):
    """the bytes that make `name` recognisable are in the content (clause 1 of C03)"""
    if name == 'raw':
        return True
    if name == 'vmdk':
        return data[0:4] == b'KDMV' or b'createtype="' in data.lower()
    if name == 'iso':
        return data[32 * K + 1:32 * K + 6] in (b'CD001', b'NSR02', b'NSR03')
    if name == 'gpt':        # an MBR signature on a boot sector that is not a FAT volume boot record
        return data[510:512] == b'\x55\xaa' and not (data[0x10] == 2 and data[0x15] == 0xF8)
    return all(data[o:o + len(s)] == s for o, s in images.SIGNATURES[name])


C03_LENGTHS = [0, 1, 3, 4, 63, 64, 65, 511, 512, 513, 591, 592, 593, 1024, 4096]
C03_LONG = [34 * K - 1, 34 * K, 34 * K + 1, 40 * K]
C03_HUGE = [256 * K - 1, 256 * K, 256 * K + 1]

ALLOWED_FAMILY = [None, ['raw'], ['qcow2', 'raw'], ['qcow2'], ['vmdk', 'raw'], ['vmdk'], ['gpt', 'raw'], ['gpt', 'vdi', 'vhd'],
                  ['iso', 'gpt', 'raw'], ['iso', 'gpt'], ['luks', 'qed', 'raw'], ['vhdx', 'raw'], ['vhdx'],
                  [f for f in ALLF if f != 'raw'], [f for f in ALLF if f != 'vhdx'],
                  [f for f in ALLF if f not in ('vhdx', 'iso')], [f for f in ALLF if f not in ('vhdx', 'iso', 'raw')],
                  ['qcow2', 'vmdk', 'vdi', 'gpt', 'raw'], ['vhd', 'vdi', 'qed', 'luks']]


def read_sizes(n, rng, quick):
    """read-size sequences (with the final empty read a chunked reader issues)"""
    out = []
    fixed = [512, 4096, 65536, 1 << 20]
    if n <= 2100:
        fixed += [1, 17, 64]
    elif n <= 50 * K:
        fixed += [64] if not quick else []
    for cs in fixed:
        k = n // cs + 1
        out.append([cs] * k + ([0] if n % cs == 0 else [cs]))
    for _ in range(2):
        sizes, pos = [], 0
        while pos < n and len(sizes) < 40:
            s = rng.choice([0, 1, 3, 4, 60, 64, 65, 448, 512, 513, 600, 4096, 30000, 70000, n])
            sizes.append(s)
            pos += s
        if pos < n:
            sizes.append(n - pos)
        sizes.append(rng.choice([0, 5]))
        out.append(sizes)
    return out


def c03_contents(rng, quick):
    """(label, bytes) items"""
    out = []
    kinds = ['zero', 'random', 'text', 'ff']
    lens = C03_LENGTHS + (C03_LONG[:2] if quick else C03_LONG)
    # single signatures and the empty overlay on every background / length
    for n in lens:
        for kind in kinds:
            if n > 4096 and kind in ('ff',):
                continue
            out.append(('bg-%s-%d' % (kind, n), background(kind, n, rng)))
            for nm in SIG_NAMES:
                off = images.SIGNATURES[nm][0][0]
                if off >= n or (quick and rng.random() < 0.55):
                    continue
                out.append(('sig-%s-%s-%d' % (nm, kind, n), overlay(background(kind, n, rng), [nm], rng)))
    # subsets of signatures
    for _ in range(60 if quick else 1200):
        n = rng.choice([513, 592, 600, 1024, 4096] + ([34 * K, 40 * K] if rng.random() < (0.15 if quick else 0.3) else []))
        k = rng.choice([2, 2, 3, 3, 4, 9])
        names = rng.sample(SIG_NAMES, min(k, len(SIG_NAMES)))
        fat = rng.random() < 0.25
        kind = rng.choice(kinds[:3])
        out.append(('multi-%s%s-%s-%d' % ('+'.join(names), '+fat' if fat else '', kind, n),
                    overlay(background(kind, n, rng), names, rng, fat)))
    # near misses: a signature with one bit flipped or its last byte missing must not be recognised
    for nm in SIG_NAMES:
        for j in range(2 if quick else 6):
            n = 40 * K if nm == 'iso' else rng.choice([600, 1024])
            good = overlay(bytes(n), [nm], rng)
            off, sig = images.SIGNATURES[nm][0]
            if nm == 'iso':
                sig = good[off:off + 5]
            b = bytearray(good)
            pos = off + (len(sig) - 1 if j == 0 else rng.randrange(len(sig)))
            b[pos] ^= 1 << (0 if j == 0 else rng.randrange(8))
            out.append(('near-%s-%d' % (nm, j), bytes(b)))
    # compatible pairs/triples built on purpose (one offset-0 signature + vdi + gpt + iso)
    zero_sigs = ['qcow2', 'qed', 'vhd', 'vhdx', 'vmdk', 'luks']
    for z in zero_sigs:
        for others in (['vdi'], ['gpt'], ['vdi', 'gpt'], ['iso'], ['gpt', 'iso']):
            n = 40 * K if 'iso' in others else 1024
            if quick and 'iso' in others and rng.random() < 0.6:
                continue
            out.append(('poly-%s+%s' % (z, '+'.join(others)), overlay(bytes(n), others + [z], rng)))
    out.append(('fat-gpt', overlay(bytes(1024), ['gpt'], rng, fat=True)))
    out.append(('fat-gpt-vdi', overlay(bytes(1024), ['gpt', 'vdi'], rng, fat=True)))
    # valid images of each format (small ones)
    for f in ALLF:
        if f in ('vhdx',):
            continue
        kw = {'body_len': 40} if f == 'luks' else {}
        out.append(('image-' + f, images.clean(f, **kw)[0]))
    out.append(('image-vmdk-footer', images.vmdk(footer=True)[0]))
    out.append(('image-vmdk-text', images.vmdk_text()[0]))
    out.append(('image-vmdk-text-flat', images.vmdk_text(typ='monolithicFlat')[0]))
    out.append(('image-iso-with-qcow2', overlay(images.iso()[0], ['qcow2'], rng)))
    out.append(('image-iso-with-gpt', overlay(images.iso()[0], ['gpt'], rng)))
    out.append(('image-gpt-in-vdi', overlay(images.vdi()[0], ['gpt'], rng)))
    # text and binary files
    for n in (10, 100, 600, 601, 602, 700, 5000):
        t = background('text', n, rng)
        out.append(('text-%d' % n, t))
        out.append(('text-%d-late-ff' % n, t + b'\xff' + background('text', 30, rng)))
        out.append(('text-%d-nul' % n, t[:n // 2] + b'\0' + t[n // 2:]))
    out.append(('text-createtype', b'# x\ncreateType="monolithicSparse"\nRW 1 SPARSE "a"\n' + background('text', 700, rng)))
    out.append(('text-createtype-late', background('text', 700, rng).replace(b'createType', b'creatorType') +
                b'createType="monolithicSparse"\nRW 1 SPARSE "a"\n'))
    out += c03_structured(rng, quick)
    out += c03_announcing(rng, quick)
    return out


def mbr_tables(rng):
    """(tag, [four 16-byte entries]): structured partition tables for the boot sector of a polyglot -
    empty, whole-disk partition starting at LBA 0 (isohybrid style), LBA 1, LBA 63 / 2048, protective,
    hybrid (protective + ordinary), bootable, type-0 leftovers"""
    e = images.pte(boot=0, ostype=0, chs=(0, 0, 0), end=(0, 0, 0), lba=0, size=0)
    P = images.pte
    big = rng.choice([1, 2048, 0x100000, 0xffffffff])
    return [
        ('empty', [e, e, e, e]),
        ('lba0-whole', [P(boot=0x80, ostype=rng.choice([0x17, 0x83, 0x00 + 0xcd, 0xef]), chs=(0, 1, 0), lba=0, size=big), e, e, e]),
        ('lba0-second', [e, P(boot=0, ostype=0x83, lba=0, size=big), e, e]),
        ('lba0-last-plus-efi', [P(boot=0, ostype=0xef, lba=rng.choice([64, 2048]), size=2880), e, e,
                                P(boot=0x80, ostype=0x17, lba=0, size=big)]),
        ('lba0-zero-size', [P(boot=0, ostype=0x83, lba=0, size=0), e, e, e]),
        ('lba0-type0', [P(boot=0, ostype=0, lba=0, size=big), e, e, e]),
        ('lba1', [P(boot=0, ostype=0x83, lba=1, size=big), e, e, e]),
        ('lba63', [P(boot=0x80, ostype=0x83, lba=63, size=big), e, e, e]),
        ('lba2048-two', [P(boot=0x80, ostype=0x83, lba=2048, size=4096), P(boot=0, ostype=0x82, lba=6144, size=big), e, e]),
        ('protective', [P(boot=0, ostype=0xEE, chs=(0, 2, 0), lba=1, size=0xffffffff), e, e, e]),
        ('hybrid', [P(boot=0, ostype=0xEE, chs=(0, 2, 0), lba=1, size=2047), P(boot=0x80, ostype=0x83, lba=2048, size=big), e, e]),
        ('hybrid-lba0', [P(boot=0, ostype=0xEE, chs=(0, 2, 0), lba=1, size=2047), P(boot=0x80, ostype=0x0c, lba=0, size=big), e, e]),
        ('random', [bytes(rng.getrandbits(8) for _ in range(16)) for _ in range(4)]),
    ]


def with_mbr(data, entries, rng, fat=False):
    """write a boot sector's partition table and 55AA signature into the first 512 bytes"""
    b = bytearray(data if len(data) >= 512 else data + bytes(512 - len(data)))
    b[446:510] = b''.join(entries)
    b[510:512] = b'\x55\xaa'
    if fat:
        b[0x10], b[0x15] = 2, 0xF8
    return bytes(b)


def c03_structured(rng, quick):
    """polyglots with structured content rather than bare signatures: every MBR table kind inside an ISO's
    system area, inside the other formats' images, and on plain backgrounds"""
    out = []
    iso = images.iso(total=34 * K)[0]
    udf = images.iso(ident=rng.choice([b'NSR02', b'NSR03']), total=34 * K)[0]
    tables = mbr_tables(rng)
    for tag, ents in tables:
        out.append(('mbr-%s-in-iso' % tag, with_mbr(rng.choice([iso, iso, udf]), ents, rng)))
    for tag, ents in (rng.sample(tables, 4) if quick else tables):
        out.append(('mbr-%s-on-zeros' % tag, with_mbr(bytes(rng.choice([512, 1024])), ents, rng)))
        host = rng.choice(['vdi', 'qcow2', 'vhd', 'luks', 'qed', 'vmdk'])
        kw = {'body_len': 40} if host == 'luks' else {}
        out.append(('mbr-%s-in-%s' % (tag, host), with_mbr(images.clean(host, **kw)[0], ents, rng)))
    out.append(('mbr-lba0-whole-in-iso-fat', with_mbr(iso, tables[1][1], rng, fat=True)))
    out.append(('mbr-lba0-whole-in-iso+vdi', overlay(with_mbr(iso, tables[1][1], rng), ['vdi'], rng)))
    out.append(('mbr-lba0-whole-in-iso+qcow2hdr', with_mbr(images.qcow2(total=512)[0] + iso[512:], tables[1][1], rng)))
    return out


def c03_announcing(rng, quick):
    """short / truncated streams of every format whose header announces a later structure (VMDK footer
    flag and descriptor location, VHDX region table and metadata pointers, qcow2 backing file, LUKS payload,
    ISO descriptor): nothing may escape from the reads, close() or detect_file_format, and there is always a
    decision after close"""
    out = []
    # VMDK: a header that announces a footer (gdOffset all ones), with and without a sane descriptor location
    for tag, kw in [('footer', dict(footer=True)), ('footer-v3', dict(footer=True, ver=3)),
                    ('footer-desc-misplaced', dict(footer=True, desc_sec=7)),
                    ('footer-bigdesc', dict(footer=True, desc_num=2 ** 40)),
                    ('footer-badver', dict(footer=True, ver=9)), ('plain', dict())]:
        img = images.vmdk(body=100, **kw)[0]
        lens = [64, 65, 100, 511, 512, 513, 575, 576, 577, 600, 638, 639, 640, 1024, 1535, 1536, 1537, 2047, 2048, 2100]
        for n in (rng.sample(lens, 7) if quick else lens):
            out.append(('vmdk-%s-trunc-%d' % (tag, n), img[:n]))
    hdr = images.sparse_header(gd=GD_AT_END, desc_num=1)
    for n in (64, 80, 575):
        out.append(('vmdk-footer-header-only-%d' % n, (hdr + b'\xee' * 600)[:n]))
    # the C02 truncation families (every structure boundary of every format)
    its = [it for it in c02_items(rng, True) if '/trunc@' in it['label'] and len(it['data']) <= 64 * K]
    for it in (rng.sample(its, 25) if quick else its):
        out.append(('trunc-' + it['label'], it['data']))
    out.append(('qcow2-backing-announced', images.qcow2(bf_offset=2 ** 40, bf_size=1000, total=512)[0]))
    out.append(('luks-payload-beyond-eof', images.luks(payload_offset=2 ** 31, body_len=0)[0]))
    return out


def c03_announcing_huge(rng, quick):
    """VHDX: region table / metadata entries pointing at structures the (truncated) stream does not hold"""
    out = []
    full = images.vhdx(tail=8, meta_off=0x50000, item_off=0x10000)[0]
    H = 192 * K
    cuts = [H + 16, H + 64 * K, 0x50000, 0x50000 + 31, 0x50000 + 32, 0x50000 + 200, 0x60000, 0x60000 + 4, 0x60000 + 8]
    for n in (rng.sample(cuts, 3) if quick else cuts):
        out.append(('vhdx-trunc-%d' % n, full[:n]))
    far = bytearray(full[:H + 64 * K + 100])
    far[H + 64:H + 72] = struct.pack('<Q', 2 ** 40)          # metadata region pointer of region-table entry 1
    out.append(('vhdx-meta-pointer-far', bytes(far)))
    if not quick:
        beyond = bytearray(full[:0x61000])
        beyond[0x50000 + 32 + 64 + 16:0x50000 + 32 + 64 + 20] = struct.pack('<I', 0xfff00000)   # item offset of entry 2
        out.append(('vhdx-item-beyond', bytes(beyond)))
        out.append(('vhdx-vmdk-footer-polyglot', overlay(full[:0x50100], ['gpt'], rng)))
    return out


BANNER = '# Disk DescriptorFile\nversion=1\nCID=fffffffe\nparentCID=ffffffff\n'      # exactly 64 bytes


def text_descriptor(offset, rng, banner=BANNER, typ='monolithicSparse', tail=True):
    """a text VMDK descriptor whose createType line starts at byte `offset` (>= len(banner)): the standard
    preamble, comment padding, then createType and an extent"""
    pad = offset - len(banner)
    assert pad >= 0
    body = ''
    while pad > 0:
        n = min(pad, 72)
        if pad - n == 1:
            n -= 1
        body += '\n' if n == 1 else '#' + rng.choice('-x. ') * (n - 2) + '\n'
        pad -= n
    t = banner + body + 'createType="%s"\n' % typ
    if tail:
        t += '\n# Extent description\nRW 2048 SPARSE "disk.vmdk"\n\n#DDB\nddb.adapterType = "ide"\n'
    return t.encode('ascii')


def c03_text_descriptors(rng, quick):
    """(label, bytes, allowed_formats, read sizes): text descriptors with the createType line at many offsets,
    read with tiny reads through wrappers that can decide early (few allowed formats; all formats when the line
    lies beyond the slowest inspector's 256 KiB) - the decision is sampled after every read and must never
    be revised"""
    out = []
    offsets = [64, 65, 66, 100, 128, 511, 512, 513, 600, 1000, 4096, 4097]
    alloweds = [['vmdk', 'raw'], ['vmdk'], ['vmdk', 'qcow2', 'raw'], ['raw', 'vmdk', 'gpt', 'vdi'], ['vmdk', 'luks']]
    reads = [1, 7, 16, 32, 63, 64, 65, 100, 512]
    banners = [BANNER, BANNER.upper(), BANNER.replace('version=1\n', 'version=1\r\n'),
               '# Disk DescriptorFile\n', 'version=1\n# no banner\n' + 'x=1\n' * 10]
    for off in offsets:
        for bn in (banners if not quick else [BANNER, rng.choice(banners[1:])]):
            o = max(off, len(bn))
            data = text_descriptor(o, rng, bn, typ=rng.choice(['monolithicSparse', 'streamOptimized', 'vmfs', 'monolithicFlat']))
            n = len(data)
            for al in (alloweds if not quick else rng.sample(alloweds, 2)):
                for r in (reads if not quick else rng.sample(reads[:6], 2) + [rng.choice(reads[6:])]):
                    if r == 1 and n > 1500:
                        continue
                    out.append(('textdesc-createtype@%d-read%d' % (o, r), data, al, [r] * (n // r + 1) + [r, 0]))
    # createType beyond 256 KiB: every format's inspector has decided by then
    for off in ([300 * K] if quick else [256 * K + 1, 300 * K, 520 * K]):
        data = text_descriptor(off, rng)
        n = len(data)
        for al, r in ([(None, 65536), (['vmdk', 'raw'], 4096)] if quick else
                      [(None, 65536), (None, 4096), (['vmdk', 'raw'], 4096), (['vmdk', 'raw'], 64), (['vmdk'], 512)]):
            out.append(('textdesc-createtype@%d-read%d' % (off, r), data, al, [r] * (n // r + 1) + [r, 0]))
    return out


def c03_priors(rng, quick):
    """(label, bytes): streams inspected *before* the stream under test, in the same process - a valid image
    of every format (what a long-running service has seen earlier must not matter)"""
    out = []
    for f in ALLF:
        kw = {'body_len': 40} if f == 'luks' else ({'tail': 8} if f == 'vhdx' else {})
        out.append(('image-' + f, images.clean(f, **kw)[0]))
    out.append(('image-vmdk-footer', images.vmdk(footer=True)[0]))
    out.append(('image-vmdk-text', images.vmdk_text()[0]))
    out.append(('zeros-2048', bytes(2048)))
    return out


def c03_laters(rng, quick):
    """(label, bytes): short / empty / other-format streams inspected after a prior one"""
    out = [('empty', b''), ('one-byte', b'\0'), ('zeros-100', bytes(100)), ('zeros-511', bytes(511)),
           ('zeros-63', bytes(63)), ('random-300', bytes(rng.getrandbits(8) for _ in range(300))),
           ('text-200', background('text', 200, rng)), ('ff-40', b'\xff' * 40)]
    for nm in SIG_NAMES:
        off, sig = images.SIGNATURES[nm][0]
        if off < 400:
            out.append(('short-sig-%s' % nm, overlay(bytes(rng.choice([off + len(sig), 100 + off, 511])), [nm], rng)))
    out.append(('image-vhd', images.vhd()[0]))
    out.append(('image-gpt', images.gpt()[0]))
    out.append(('image-qcow2-513', images.qcow2(total=513)[0]))
    out.append(('zeros-512', bytes(512)))
    out.append(('zeros-34816', bytes(34 * K)))
    return out


def c03_huge_contents(rng, quick):
    """streams long enough for the VHDX inspector to decide (>= 256 KiB)"""
    out = []
    for n in (C03_HUGE[1:2] if quick else C03_HUGE):
        out.append(('bg-zero-%d' % n, bytes(n)))
        out.append(('sig-vhdx-zero-%d' % n, overlay(bytes(n), ['vhdx'], rng)))
    out.append(('image-vhdx', images.vhdx(tail=8)[0]))
    if not quick:
        out.append(('image-vhdx-with-gpt', overlay(images.vhdx(tail=8)[0], ['gpt'], rng)))
        out.append(('image-vhdx-bad-regi', images.vhdx(regi=0x12345678, tail=8)[0]))
        out.append(('sig-qcow2+iso-zero-%d' % (256 * K + 1), overlay(bytes(256 * K + 1), ['iso', 'qcow2'], rng)))
    out += c03_announcing_huge(rng, quick)
    return out


# --------------------------------------------------------------------------
# C06: streams and fault plans

def c06_streams(rng, quick):
    """(label, data, sizes) with few chunks"""
    out = []
    maxc = 6 if quick else 12

    def cutn(data, nchunks):
        n = len(data)
        cuts = sorted(rng.randrange(0, n + 1) for _ in range(nchunks - 1))
        return images.sizes_from_cuts(cuts, n)
    # the first seven are the ones enumerated exhaustively in the quick tier
    out.append(('zeros-6x100', bytes(600), [100] * 6))
    out.append(('qcow2', images.qcow2(total=1024)[0], [4, 100, 408, 500, 12]))
    out.append(('vmdk', images.vmdk(desc_num=1, body=100)[0], [64, 448, 512, 50, 50]))
    out.append(('vmdk-bad-version', images.vmdk(ver=7, desc_num=1, body=10)[0], [10, 54, 448, 522]))
    out.append(('gpt', images.gpt(total=1024)[0], [511, 1, 512]))
    out.append(('luks', images.luks(body_len=8)[0], [6, 586, 8]))
    out.append(('vdi-with-empty-chunks', images.vdi()[0], [0, 512, 0, 512, 0]))
    out.append(('zeros-512s', bytes(512 * 4), [512] * 4))
    out.append(('vmdk-bad-descsec', images.vmdk(desc_sec=9, desc_num=1, body=10)[0], [63, 1, 970]))
    out.append(('vmdk-text', images.vmdk_text()[0], [4, 60, 100, 200]))
    out.append(('binary-ff', b'\xff' * 700, [64, 448, 100, 88]))
    out.append(('vhd', images.vhd()[0], [512, 0, 512]))
    out.append(('qed', images.qed()[0], [511, 1, 512]))
    out.append(('empty-stream', b'', [0, 0]))
    out.append(('one-chunk', images.qcow2(total=600)[0], [600]))
    for i in range(2 if quick else 10):
        data = bytes(rng.getrandbits(8) for _ in range(rng.randrange(1, 1500)))
        out.append(('random-%d' % i, data, cutn(data, rng.randrange(1, maxc + 1))))
    for i in range(1 if quick else 6):
        f = rng.choice(['qcow2', 'vhd', 'vdi', 'gpt', 'qed', 'vmdk'])
        data = images.clean(f)[0]
        out.append(('%s-%d-chunks' % (f, maxc), data, cutn(data, maxc)))
    return out


def c06_big_streams(rng, quick):
    """genuine parser errors that need a long stream (VHDX region table at 192 KiB)"""
    out = []
    bad = images.vhdx(regi=0x11111111, tail=8, meta_off=0x50000, item_off=0x10000)[0][:0x50000]
    good = images.vhdx(tail=8, meta_off=0x50000, item_off=0x10000)[0]
    badmeta = images.vhdx(meta_sig=b'metadatA', tail=8, meta_off=0x50000, item_off=0x10000)[0]
    cnt = images.vhdx(reg_count=5000, tail=8, meta_off=0x50000, item_off=0x10000)[0][:0x50000]
    H = 192 * K
    out.append(('vhdx-bad-regi', bad, images.sizes_from_cuts([H, H + 64 * K], len(bad))))
    out.append(('vhdx-bad-regi-3', bad, images.sizes_from_cuts([100, H + 16, H + 64 * K - 1, H + 64 * K], len(bad))))
    out.append(('vhdx-good', good, images.sizes_from_cuts([H, H + 64 * K, 0x50000 + 32, 0x60000], len(good))))
    out.append(('vhdx-bad-meta-sig', badmeta, images.sizes_from_cuts([H + 64 * K, 0x50000 + 31, 0x50000 + 32, 0x60000], len(badmeta))))
    if not quick:
        out.append(('vhdx-region-count', cnt, images.sizes_from_cuts([H + 64 * K], len(cnt))))
        out.append(('vhdx-good-one-chunk', good, [len(good)]))
    return out


def c06_matching(rng, quick):
    """(format, label, data, sizes): a clean image of `format` read through a file-like source with
    zero-length reads in mid-stream and further reads after EOF; with expected_format = format (or
    'raw', or none) and no fault in that inspector the reader must get every byte and no exception"""
    out = []
    fmts = [f for f in ALLF if f != 'vhdx' or not quick]
    for f in fmts:
        kw = {'body_len': 8} if f == 'luks' else ({'tail': 8} if f == 'vhdx' else {})
        data = images.clean(f, **kw)[0]
        n = len(data)
        a = min(n, rng.choice([4, 64, 100, 512]))
        seqs = [[n, 0, 0], [n, 0, 7, 0], [0, n, 0], [a, 0, n - a, 0], [0, 0, a, n - a, 5, 5], [n + 10, 3],
                [a, 0, 0, n, 0, 0, 1]]
        if f in ('vhdx', 'iso'):
            seqs = seqs[:4]
        for k, sizes in enumerate(seqs if not quick else rng.sample(seqs, 4)):
            out.append((f, 'match-%s-reads-%d' % (f, k), data, sizes))
    return out


C06_ALLOWED = [None, ['raw', 'qcow2', 'vmdk'], ['vhd'], ['gpt', 'luks', 'vdi', 'qed', 'iso']]


def parse_fault_reply(line):
    """'out=L:A chunks=N end=E \\t name[!]:i,j;...' -> (head dict, {name: (errored, [indices])})"""
    head, _, per = line.partition('\t')
    h = dict(t.partition('=')[::2] for t in head.split(' '))
    logs = {}
    for ent in per.split(';') if per else []:
        nm, _, idx = ent.partition(':')
        err = nm.endswith('!')
        nm = nm.rstrip('!')
        logs[nm] = (err, [int(x) for x in idx.split(',')] if idx else [])
    return h, logs


def canon_fault(line, expected):
    """order-independent part of a `fault` reply: when the stream was cut off at chunk m, which of the
    other inspectors saw chunk m (and faulted on it) depends on the set iteration order, so chunk m
    is dropped from their logs together with an errored mark earned on it"""
    h, logs = parse_fault_reply(line)
    if 'chunks' not in h or 'end' not in h:
        return line
    if h['end'] != 'done':
        m = int(h['chunks'])
        for nm, (err, idx) in list(logs.items()):
            if nm == expected:
                continue
            if idx and idx[-1] == m:
                logs[nm] = (False, idx[:-1])     # an errored inspector is never fed again: the mark was earned on m
    per = ';'.join('%s%s:%s' % (nm, '!' if err else '', ','.join(map(str, idx))) for nm, (err, idx) in logs.items())
    return 'out=%s chunks=%s end=%s\t%s' % (h.get('out'), h['chunks'], h['end'], per)
