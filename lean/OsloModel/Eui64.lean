/-
Model of the EUI-64 helpers of oslo_utils.netutils:

  * get_ipv6_addr_by_EUI64(prefix, mac)      netutils.py:195-225
  * get_mac_addr_by_ipv6(ipv6)               netutils.py:228-254

Integers are unbounded `Nat`, bit operations are the `Nat` ones, so the model
reads like the code.  What lives in netaddr is a parameter of the model:

  * `isinstance(prefix, str)`, `is_valid_ipv4(prefix, False)` and
    `netaddr.IPNetwork(prefix).first` are summarised by `PrefixIn`
    (`first` is the *network address* of the prefix as an integer: netaddr masks
    the host bits of the text away);
  * `netaddr.EUI(mac)` is summarised by `MacIn` (48- or 64-bit value, or the
    exception it raised).

`EUI.eui64()` (netaddr/eui/__init__.py, the ff:fe insertion) and
`IPAddress(int)` (version chosen by magnitude, AddrFormatError above 2^128-1)
are transcribed, because the property talks about them.
-/
namespace Oslo.Eui64

inductive Err
  | valueError | typeError
  | addrFormatError            -- netaddr.AddrFormatError escaping get_mac_addr_by_ipv6
  deriving DecidableEq, Repr

/-- what the code learns about `prefix` -/
inductive PrefixIn
  | notStr                     -- not isinstance(prefix, str)
  | ipv4Addr                   -- is_valid_ipv4(prefix, False) is true
  | malformed                  -- netaddr.IPNetwork(prefix) raises AddrFormatError / ValueError
  | net (first : Nat)          -- netaddr.IPNetwork(prefix).first
  deriving DecidableEq, Repr

/-- what `netaddr.EUI(mac)` gives -/
inductive MacIn
  | wrongType                  -- raises TypeError
  | malformed                  -- raises AddrFormatError / ValueError
  | eui48 (v : Nat)            -- 48-bit MAC with this value
  | eui64 (v : Nat)            -- the caller passed a 64-bit EUI
  deriving DecidableEq, Repr

/-- a `netaddr.IPAddress`: version and value -/
inductive Addr
  | v4 (n : Nat) | v6 (n : Nat)
  deriving DecidableEq, Repr

/-- `EUI.eui64()` on a 48-bit value: `(first_three << 40) | 0xFFFE000000 | last_three` -/
def eui64Of48 (mac : Nat) : Nat :=
  ((mac >>> 24) <<< 40) ||| 0xFFFE000000 ||| (mac &&& 0xFFFFFF)

/-- `int(netaddr.EUI(mac).eui64())` -/
def eui64Value : MacIn → Except Err Nat
  | .wrongType => .error .typeError
  | .malformed => .error .valueError
  | .eui48 v => .ok (eui64Of48 v)
  | .eui64 v => .ok v

/-- `netaddr.IPAddress(int)`: IPv4 up to 2^32-1, IPv6 up to 2^128-1, else AddrFormatError -/
def ipAddressOfInt (v : Nat) : Option Addr :=
  if v < 2 ^ 32 then some (.v4 v) else if v < 2 ^ 128 then some (.v6 v) else none

/-- `prefix.first + eui64 ^ (1 << 57)` — Python parses this as `(first + eui64) ^ (1 << 57)` -/
def combine (first eui : Nat) : Nat := (first + eui) ^^^ (1 <<< 57)

/-- get_ipv6_addr_by_EUI64 (netutils.py:209-225), in evaluation order -/
def addrByEUI64 (p : PrefixIn) (m : MacIn) : Except Err Addr :=
  match p with
  | .notStr => .error .typeError                       -- l.209-211
  | .ipv4Addr => .error .valueError                    -- l.213-215
  | .malformed =>
    match eui64Value m with                            -- l.217 runs before l.218
    | .error e => .error e
    | .ok _ => .error .valueError                      -- l.218 AddrFormatError -> l.220
  | .net first =>
    match eui64Value m with
    | .error e => .error e
    | .ok eui =>
      match ipAddressOfInt (combine first eui) with    -- l.219
      | some a => .ok a
      | none => .error .valueError                     -- AddrFormatError -> l.220

/-- the integer computed by get_mac_addr_by_ipv6 (netutils.py:245-252) -/
def macOfNat (a : Nat) : Nat :=
  (((a &&& 0xffffff0000000000) >>> 16) + (a &&& 0xffffff)) ^^^ 0x020000000000

/-- get_mac_addr_by_ipv6 on a `netaddr.IPAddress`: every intermediate value is an
    IPAddress of the same version, so for an IPv4 object the final `^ 0x02_00_00_00_00_00`
    (a value above 2^32-1) raises AddrFormatError; `netaddr.EUI(int)` itself never fails
    because the value is below 2^48 (`macOfNat_lt`). -/
def macOf : Addr → Except Err Nat
  | .v4 _ => .error .addrFormatError
  | .v6 a => .ok (macOfNat a)

end Oslo.Eui64
