"""C09 - exception-handling helpers never lose, replace or invent an exception.

Model: lean/OsloModel/Exc.lean (driver drv_C09); theorems: lean/OsloProofs/Props/C09.lean.

A case is {'flag', 'kinds', 'path', 'body'}: the body (a nested list, see `Body grammar`) is
rendered to Python source - one function `scenario` that first makes
`c0 = save_and_reraise_exception(reraise=flag, logger=L)` and then runs the body - and executed
against the real excutils / fileutils with tagged exception objects E[0..2], a list logger and a
scratch path.

Body grammar (JSON lists; booleans may be 0/1 or true/false):
  ['nop'] ['rc',k] ['rn',k] ['sr',b] ['nest',b,B] ['fr',caught] ['cap'] ['seq',A,B] ['h',k,B]
  ['fx',form,[k..],[[k,k']..],B] ['fc',form,[k..],[[k,k']..],k] ['rp','d'|'n'|'w'|'r<k>',B]
  ['rwc','N'|'none'|k]
  fx / fc take an optional last element [yes, no]: codes of the objects the predicate returns for the ids
        in the table / for every other id (default ['T', 'F']); see VALS - any Python object, only its truth
        value may matter
  form: 0 decorator on a function, 1 on an instance method (one class per scenario, one instance per
        distinct table, a decoy instance with the opposite table looked up first), 2/3 on a classmethod
        reached through the class / an instance (one base class, a subclass per table), 4/5 on a
        staticmethod reached through the class / an instance
  ['nt',b,B,LATE]     with sre(reraise=b) as c': B   and, if the with ended normally, LATE on the exited c'
  ['hnt',k,b,B,LATE]  try: raise E[k] / except: with sre(reraise=b) as c': B   and, after the try, LATE on c'
  ['ec',B]            with c: B   - the context object the operations address is entered (again): one object
                      created once and used for several failures
  ['sw',B]            try: B / except BaseException: pass
"""
import contextlib
import errno
import itertools
import logging
import os
import re
import shutil
import stat
import sys
import tempfile
import traceback

import common
from common import Disagreement, Failure, req

ID = 'C09'
DRIVER = 'drv_C09'
PROOF_MODULES = ['OsloProofs.Props.C09']
LEVEL = 'proof'
N1 = 'N1-force-reraise-caught'
RULE = ('handler bodies over {nop, raise-and-catch, raise, reraise on/off, nested save_and_reraise_exception, '
        'force_reraise caught/uncaught, capture, inner handler} enumerated exhaustively by number of operations '
        '(<= 3 quick, <= 4 thorough) in the context-manager form (inside `except` + `with`) and the direct-call form '
        '(operations on an un-entered context) x initial flag x exception classes {plain, constructor-with-arguments, '
        'raised-from-another (chained, with a note), carrying a prior traceback, BaseException subclass, raised inside '
        'another handler (implicit __context__)}; exception_filter made from a function, an instance method (one class, '
        'several instances with different tables, a decoy instance looked up first), a classmethod and a staticmethod '
        '(reached through the class and through an instance), as context manager and called directly, alone and two '
        'filters interleaved, remove_path_on_error (default / custom / raising remove x '
        'absent / file / directory) and raise_with_cause around all bodies of <= 2 operations; operations (force_reraise, '
        'capture, ...) on a context after its with block ended normally, inside and after the except clause; ONE context '
        'object entered two or three times for different failures (after a re-raise, flag off, a body exception, '
        'force_reraise, capture); every flag pattern x exception classes including KeyboardInterrupt / SystemExit / '
        'GeneratorExit subclasses (with and without constructor arguments); real path kinds incl. dangling / looping '
        'symlinks; every legal call form of the pinned signatures (save_and_reraise_exception(reraise=True, logger=None), '
        'exception_filter(should_ignore_ex), remove_path_on_error(path, remove=...), raise_with_cause(exc_cls, message, ...): '
        'positional / keyword / omitted / permuted) for the same logical arguments; plus random bodies '
        'over the whole grammar. A case is non-trivial when its body contains at least one helper operation and at '
        'least one exception was actually raised (some traceback is non-empty); distinct by (flag, kinds, path, body)')
TRUSTED_BASE = [
    'Lean 4 kernel; axioms audited per theorem (subset of propext, Classical.choice, Quot.sound)',
    'hand-written model OsloModel/Exc.lean: the four fields and four methods of save_and_reraise_exception, '
    'exception_filter.__exit__/__call__/__get__, remove_path_on_error, raise_with_cause, tied to the code by this '
    'correspondence',
    'modelled, not verified: CPython 3.12 raise / except / with protocol, sys.exc_info(), how __traceback__ grows '
    '(one entry per frame an exception is raised in or passes through, none on a re-raise by a with/except exit, '
    'with_traceback replaces), contextlib._GeneratorContextManager.__exit__, os.remove on absent/file/directory',
]
UNMODELLED = [
    'traceback contents beyond the code object of each entry (line numbers, locals)',
    '__context__ (assigned by the interpreter on every raise made while another exception is handled) is not in the '
    'model; the implementation-only oracle checks it together with __cause__, __suppress_context__, args and notes',
    'greenthread switches clearing the exception context',
    'StopIteration thrown through remove_path_on_error; predicates with side effects; a context object entered '
    'again inside its own with block (generators avoid it)',
    'the text handed to logger.error (only which exception and traceback were formatted is compared)',
]
ASSUMPTIONS = [
    'interpretation (agreed with the coordinator): the "error" in remove_path_on_error means an Exception subclass - '
    'the code says `except Exception`, so a BaseException-only exception (KeyboardInterrupt-like) propagates as the '
    'same object with its traceback intact but the path is NOT removed; theorem rpoe_removes_then_reraises carries '
    'the hypothesis isExc and rpoe_baseexception_passes_unremoved proves the negative',
    'save_and_reraise_exception entered with no exception being handled and left with reraise on raises the '
    'documented RuntimeError (nothing to re-raise); the oracle accepts exactly that',
    'a nested save_and_reraise_exception re-raising the original makes the outer one log it as "dropped" although '
    'the same object propagates (body raised => logged when the flag is on): accepted as stated by the property',
]

KINDS_CORE = ['plain', 'args', 'chained', 'prior', 'base', 'ctx']
# BaseException subclasses that are not Exception: subclasses of KeyboardInterrupt / SystemExit / GeneratorExit
# (plain and with mandatory constructor arguments); 'base' above is a direct subclass of BaseException
KINDS_EXIT = ['kbd', 'sysexit', 'genexit', 'kbdargs', 'sysargs']
KINDS = KINDS_CORE + KINDS_EXIT
KIND_BASE = {'base': BaseException, 'kbd': KeyboardInterrupt, 'sysexit': SystemExit, 'genexit': GeneratorExit,
             'kbdargs': KeyboardInterrupt, 'sysargs': SystemExit}
KIND_ARGS = ('args', 'kbdargs', 'sysargs')
FORMS = [0, 1, 2, 3, 4, 5]
# what the protected path of remove_path_on_error is (really built in a scratch directory): absent, a regular
# file, a directory, a symbolic link to a file / to a directory / to nothing (dangling) / to itself (loop)
PATHS = ['absent', 'file', 'dir', 'lfile', 'ldir', 'dangling', 'loop']
# remove= : default (delete_if_exists), a function that returns, one that delegates to delete_if_exists, raising
REMOVERS = ['d', 'n', 'w', 'r0', 'r1']
PRIOR_LEN = 2


# --------------------------------------------------------------------------
# bodies

def B(x):
    return 1 if x else 0


def seq_of(items):
    """right-nested seq of a list of items ([] is nop)"""
    if not items:
        return ['nop']
    if len(items) == 1:
        return items[0]
    return ['seq', items[0], seq_of(items[1:])]


def size(b):
    t = b[0]
    if t == 'seq':
        return size(b[1]) + size(b[2])
    if t in ('nest', 'h'):
        return 1 + size(b[2])
    if t == 'fx':
        return 1 + size(b[4])
    if t == 'rp':
        return 1 + size(b[2])
    if t == 'nt':
        return 1 + size(b[2]) + size(b[3])
    if t == 'hnt':
        return 1 + size(b[3]) + size(b[4])
    if t in ('ec', 'sw'):
        return 1 + size(b[1])
    return 1


CHILD_IDX = {'seq': (1, 2), 'nest': (2,), 'h': (2,), 'rp': (2,), 'fx': (4,), 'nt': (2, 3), 'hnt': (3, 4),
             'ec': (1,), 'sw': (1,)}


def children(b):
    return [b[i] for i in CHILD_IDX.get(b[0], ())]


def has_helper(b):
    return b[0] in ('nest', 'fr', 'cap', 'fx', 'fc', 'rp', 'rwc', 'nt', 'hnt', 'ec') or any(has_helper(c) for c in children(b))


def has_rp(b):
    return b[0] == 'rp' or any(has_rp(c) for c in children(b))


def force_caught(b, under_filter=False):
    """Body.forceCaught of the model: a direct force_reraise() that cannot leave the body."""
    t = b[0]
    if t == 'fr':
        return bool(b[1]) or under_filter
    if t == 'seq':
        return force_caught(b[1], under_filter) or force_caught(b[2], under_filter)
    if t in ('h', 'rp'):
        return force_caught(b[2], under_filter)
    if t == 'fx':
        return force_caught(b[4], True)
    if t == 'ec':                       # its __exit__ calls force_reraise()
        return under_filter or force_caught(b[1], under_filter)
    if t == 'sw':
        return force_caught(b[1], True)
    return False


def in_class_N1(b):
    """Some save_and_reraise_exception context in the program (c0 or a nested one) has a body in the class."""
    if b[0] in ('nest', 'nt') and force_caught(b[2]):
        return True
    if b[0] == 'hnt' and force_caught(b[3]):
        return True
    if b[0] == 'ec' and force_caught(b[1]):
        return True
    return any(in_class_N1(c) for c in children(b))


def ser(b):
    """body -> driver text (prefix notation)"""
    t = b[0]
    if t in ('nop', 'cap'):
        return t
    if t in ('rc', 'rn'):
        return '%s %d' % (t, b[1])
    if t in ('sr', 'fr'):
        return '%s %d' % (t, B(b[1]))
    if t == 'nest':
        return 'nest %d %s' % (B(b[1]), ser(b[2]))
    if t == 'seq':
        return 'seq %s %s' % (ser(b[1]), ser(b[2]))
    if t == 'h':
        return 'h %d %s' % (b[1], ser(b[2]))
    if t in ('fx', 'fc'):
        acc = ','.join(str(k) for k in b[2]) or '-'
        rais = ','.join('%d>%d' % (a, c) for a, c in b[3]) or '-'
        tail = ser(b[4]) if t == 'fx' else str(b[4])
        return '%s %d %s %s %s/%s %s' % ((t, int(b[1]), acc, rais) + style_of(b) + (tail,))
    if t == 'rp':
        return 'rp %s %s' % (b[1], ser(b[2]))
    if t == 'rwc':
        return 'rwc %s' % b[1]
    if t == 'nt':
        return 'nt %d %s %s' % (B(b[1]), ser(b[2]), ser(b[3]))
    if t == 'hnt':
        return 'hnt %d %d %s %s' % (b[1], B(b[2]), ser(b[3]), ser(b[4]))
    if t in ('ec', 'sw'):
        return '%s %s' % (t, ser(b[1]))
    raise ValueError('bad body %r' % (b,))


def case_line(case):
    excs = ','.join('%d:%d:%d:%s:%d' % (k in KIND_ARGS, k not in KIND_BASE, PRIOR_LEN if k == 'prior' else 0,
                                        cause_index(i) if k == 'chained' else 'N', k == 'chained')
                    for i, k in enumerate(case['kinds']))
    return req('run', B(case['flag']), case['path'], excs, ser(case['body']))


class _Falsy:
    def __bool__(self):
        return False


class _Truthy:
    def __bool__(self):
        return True


# objects a predicate may return (code -> object); the driver knows the same codes
VALS = {'T': True, 'F': False, 'N': None, 'o': object(), 'm': re.match('a', 'a'), 'i1': 1, 'i0': 0, 'i-3': -3,
        's1': 'x', 's0': '', 'l1': [0], 'l0': [], 't2': (0, 0), 't0': (), 'b1': _Truthy(), 'b0': _Falsy()}
# (answer for the ids in the table, answer for the others)
STYLES = [('T', 'F'), ('i1', 'i0'), ('m', 'N'), ('t2', 't0'), ('l1', 'l0'), ('s1', 's0'), ('o', 'N'), ('b1', 'b0'),
          ('i-3', 'F'), ('F', 'T'), ('N', 'o')]
DEFAULT_STYLE = ('T', 'F')


def style_of(b):
    """the [yes, no] element of an fx / fc node"""
    return tuple(b[5]) if len(b) > 5 else DEFAULT_STYLE


# --------------------------------------------------------------------------
# the pinned public signatures (as on the clean tree - data, not read from the tree under test) and every
# legal call form of them.  A case may carry 'forms': [sre, filter, rpoe, rwc] (indices into the lists below).
#   save_and_reraise_exception(reraise=True, logger=None)
#   exception_filter(should_ignore_ex)
#   remove_path_on_error(path, remove=delete_if_exists)
#   raise_with_cause(exc_cls, message, *args, **kwargs)        [cause=... is a keyword]
#   forever_retry_uncaught_exceptions(*args, **kwargs)          [retry_delay=1.0, same_log_delay=60.0 keywords;
#                                                                bare decorator or called] - see check_forever_retry
PINNED = {
    'save_and_reraise_exception': (('reraise', True), ('logger', None)),
    'exception_filter': (('should_ignore_ex',),),
    'remove_path_on_error': (('path',), ('remove', 'fileutils.delete_if_exists')),
    'raise_with_cause': (('exc_cls',), ('message',)),
}
# (how reraise is passed, how logger is passed): 'omit' / 'pos' / 'kw' / 'kw2' (keywords, logger first)
SRE_FORMS = [('omit', 'omit'), ('pos', 'omit'), ('kw', 'omit'), ('pos', 'pos'), ('pos', 'kw'), ('kw', 'kw'),
             ('kw2', 'kw2'), ('omit', 'kw')]
FILTER_FORMS = ['decorator', 'pos', 'kw']                # @exception_filter / exception_filter(f) / (should_ignore_ex=f)
RPOE_FORMS = [('pos', 'std'), ('kw', 'std'), ('pos', 'pos'), ('pos', 'kw'), ('kw', 'kw'), ('kw2', 'kw2')]
#   'std': remove omitted when it is the default remover, keyword otherwise
RWC_FORMS = [('pos', 'pos'), ('pos', 'kw'), ('kw', 'kw'), ('kw2', 'kw2')]
DEFAULT_FORMS = (5, 0, 0, 0)
# the logger object the scenario's constructor calls pass (when their call form passes one): 'mock' is a duck-typed
# object that records every error() call; 'r<LEVEL>' is a real logging.Logger with that level of its own, its own
# handler and propagate off (NOTSET: it inherits the root's level).  'root' in a case sets the ROOT logger's level for
# that case (cases that are explicitly about the ambient logging configuration); None leaves the process as it is.
LOGGERS = ['mock', 'rDEBUG', 'rERROR', 'rCRITICAL', 'rNOTSET']
ROOT_LEVELS = [None, 'CRITICAL', 'ERROR', 'DEBUG']


def forms_of(case):
    f = tuple(case.get('forms') or DEFAULT_FORMS)
    return f + DEFAULT_FORMS[len(f):]


def sre_call(form, flag_src, flag_known_true):
    """source of the constructor call in the given form for the logical arguments (flag, logger L / default);
    returns (source, sink) - sink is where the dropped original must be logged"""
    r, lg = SRE_FORMS[form]
    if r == 'omit' and not flag_known_true:
        r = 'kw'                                   # the default cannot express reraise=False
    parts = []
    if r == 'pos':
        parts.append(flag_src)
    if lg == 'pos':
        parts.append('L')
    if lg == 'kw2':
        parts.append('logger=L')
    if r in ('kw', 'kw2'):
        parts.append('reraise=%s' % flag_src)
    if lg == 'kw':
        parts.append('logger=L')
    return 'X.save_and_reraise_exception(%s)' % ', '.join(parts), ('root' if lg == 'omit' else 'L')


def cause_index(k):
    """a 'chained' E[k] was raised `from` this other declared exception"""
    return (k + 2) % 3


class Rendered:
    pass


_render_cache = {}


def render(body, spy, forms=DEFAULT_FORMS):
    """body -> (compiled scenario function, filter specs).  The source depends on the body and the call forms."""
    key = (ser(body), spy, forms)
    hit = _render_cache.get(key)
    if hit is not None:
        return hit
    cform, fform, pform, wform = forms
    c0_src, c0_sink = sre_call(cform, 'FLAG', False)
    lines = ['def scenario(E, L, X, FU, FILT, OBJ, PATH, RMS, CAUSED, SPY, FLAG, OUT):',
             '    c0 = %s' % c0_src,
             '    OUT.append(c0)']
    if spy:
        lines.append('    SPY.made(0, c0, FLAG, %r)' % c0_sink)
    filt = []
    counter = [0]

    def fresh():
        counter[0] += 1
        return counter[0]

    def emit(b, ind, ctx):
        p = '    ' * ind
        t = b[0]
        if t == 'nop':
            lines.append(p + 'pass')
        elif t == 'rn':
            lines.append(p + 'raise E[%d]' % b[1])
        elif t in ('rc', 'h'):
            lines.append(p + 'try:')
            lines.append(p + '    raise E[%d]' % b[1])
            lines.append(p + 'except BaseException:')
            if t == 'rc':
                lines.append(p + '    pass')
            else:
                emit(b[2], ind + 1, ctx)
        elif t == 'sr':
            lines.append(p + 'c%d.reraise = %s' % (ctx, bool(b[1])))
        elif t in ('nest', 'nt', 'hnt'):
            i = fresh()
            flag, inner = (b[2], b[3]) if t == 'hnt' else (b[1], b[2])
            q, wi = p, ind
            if t == 'hnt':
                lines.append(p + 'try:')
                lines.append(p + '    raise E[%d]' % b[1])
                lines.append(p + 'except BaseException:')
                q, wi = p + '    ', ind + 1
            call, sink = sre_call(cform, str(bool(flag)), bool(flag))
            if spy:
                # the object is made first so that the probe can check what `__enter__` hands to `as`
                lines.append(q + 'with SPY.sre_out(%d):' % i)
                lines.append(q + '    k%d = %s' % (i, call))
                lines.append(q + '    SPY.made(%d, k%d, %s, %r)' % (i, i, bool(flag), sink))
                lines.append(q + '    with k%d as c%d:' % (i, i))
                lines.append(q + '        with SPY.sre_in(%d, c%d, k%d):' % (i, i, i))
                emit(inner, wi + 3, i)
            else:
                lines.append(q + 'with %s as c%d:' % (call, i))
                emit(inner, wi + 1, i)
            if t != 'nest':
                # reached only when the with statement (and the try) ended normally: operations on the exited c<i>
                emit(b[-1], ind, i)
        elif t == 'ec':
            if spy:
                lines.append(p + 'with SPY.sre_out(%d):' % ctx)
                lines.append(p + '    with c%d as again%d:' % (ctx, ctx))
                lines.append(p + '        with SPY.sre_in(%d, again%d, c%d):' % (ctx, ctx, ctx))
                emit(b[1], ind + 3, ctx)
            else:
                lines.append(p + 'with c%d:' % ctx)
                emit(b[1], ind + 1, ctx)
        elif t == 'sw':
            lines.append(p + 'try:')
            emit(b[1], ind + 1, ctx)
            lines.append(p + 'except BaseException:')
            lines.append(p + '    pass')
        elif t == 'fr':
            q = p
            if b[1]:
                lines.append(p + 'try:')
                q = p + '    '
            if spy:
                lines.append(q + 'with SPY.forced(%d):' % ctx)
                lines.append(q + '    c%d.force_reraise()' % ctx)
            else:
                lines.append(q + 'c%d.force_reraise()' % ctx)
            if b[1]:
                lines.append(p + 'except BaseException:')
                lines.append(p + '    pass')
        elif t == 'cap':
            if spy:
                lines.append(p + 'with SPY.captured(%d):' % ctx)
                lines.append(p + '    c%d.capture()' % ctx)
            else:
                lines.append(p + 'c%d.capture()' % ctx)
        elif t == 'seq':
            emit(b[1], ind, ctx)
            emit(b[2], ind, ctx)
        elif t == 'fx':
            j = len(filt)
            filt.append((int(b[1]), tuple(b[2]), tuple((a, c) for a, c in b[3]), style_of(b)))
            # the attribute lookup (exception_filter.__get__) happens here, in program order
            fexpr = 'FILT[%d]' % j if int(b[1]) == 0 else 'OBJ[%d].pred' % j
            if spy:
                i = fresh()
                lines.append(p + 'with SPY.fx_out(%d, %d):' % (i, j))
                lines.append(p + '    fk%d = %s' % (i, fexpr))
                lines.append(p + '    with fk%d as fv%d:' % (i, i))
                lines.append(p + '        with SPY.plain_in(%d, fv%d, fk%d):' % (i, i, i))
                emit(b[4], ind + 3, ctx)
            else:
                lines.append(p + 'with %s:' % fexpr)
                emit(b[4], ind + 1, ctx)
        elif t == 'fc':
            j = len(filt)
            filt.append((int(b[1]), tuple(b[2]), tuple((a, c) for a, c in b[3]), style_of(b)))
            fexpr = 'FILT[%d]' % j if int(b[1]) == 0 else 'OBJ[%d].pred' % j
            if spy:
                lines.append(p + 'with SPY.fc(%d, %d):' % (j, b[4]))
                lines.append(p + '    %s(E[%d])' % (fexpr, b[4]))
            else:
                lines.append(p + '%s(E[%d])' % (fexpr, b[4]))
        elif t == 'rp':
            rm = b[1]
            pf, rf = RPOE_FORMS[pform]
            rsrc = 'RMS[%r]' % (rm if rm in ('n', 'w', 'd') else int(rm[1:]))
            if rf == 'std':
                rf = 'omit' if rm == 'd' else 'kw'
            parts = ['PATH'] if pf == 'pos' else []
            if rf == 'pos':
                parts.append(rsrc)
            if rf == 'kw2':
                parts.append('remove=%s' % rsrc)
            if pf in ('kw', 'kw2'):
                parts.append('path=PATH')
            if rf == 'kw':
                parts.append('remove=%s' % rsrc)
            head = 'with FU.remove_path_on_error(%s):' % ', '.join(parts)
            if spy:
                i = fresh()
                lines.append(p + 'with SPY.rp_out(%d, %r):' % (i, rm))
                lines.append(p + '    ' + head)
                lines.append(p + '        with SPY.plain_in(%d):' % i)
                emit(b[2], ind + 3, ctx)
            else:
                lines.append(p + head)
                emit(b[2], ind + 1, ctx)
        elif t == 'rwc':
            x = b[1]
            arg = '' if x == 'N' else (', cause=None' if x == 'none' else ', cause=E[%d]' % int(x))
            cf, mf = RWC_FORMS[wform]
            parts = ['CAUSED'] if cf == 'pos' else []
            if mf == 'pos':
                parts.append('"m"')
            if mf == 'kw2':
                parts.append('message="m"')
            if cf in ('kw', 'kw2'):
                parts.append('exc_cls=CAUSED')
            if mf == 'kw':
                parts.append('message="m"')
            call = 'X.raise_with_cause(%s%s)' % (', '.join(parts), arg)
            if spy:
                lines.append(p + 'with SPY.rwc(%r):' % (x,))
                lines.append(p + '    ' + call)
            else:
                lines.append(p + call)
        else:
            raise ValueError('bad body %r' % (b,))

    emit(body, 1, 0)
    src = '\n'.join(lines) + '\n'
    ns = {}
    exec(compile(src, '<C09-scenario>', 'exec'), ns)
    r = Rendered()
    r.fn, r.filt, r.src = ns['scenario'], filt, src
    if len(_render_cache) > 20000:
        _render_cache.clear()
    _render_cache[key] = r
    return r


# --------------------------------------------------------------------------
# running the real code

def _O0(e):
    raise e


def _O1(e):
    _O0(e)


def _invoke(fn, args):
    try:
        fn(*args)
    except BaseException as ex:      # noqa: B902 - the scenarios raise BaseException subclasses on purpose
        return ex
    return None


class Env:
    """Process-wide set-up for a batch of runs: scratch directory, root-logger handler, recorder of
    traceback.format_exception arguments, code-object -> frame-tag table."""

    def __enter__(self):
        from oslo_utils import excutils, fileutils
        self.X, self.FU = excutils, fileutils
        self.dir = tempfile.mkdtemp(prefix='verif-C09-')
        self.path = os.path.join(self.dir, 'p')
        self.pending = None
        self.log = []
        self.sinks = []
        env = self

        class Handler(logging.Handler):
            def emit(self, record):
                env.logged('root')

        class ListLogger:
            def error(self, msg, *args, **kw):
                env.logged('L')

        self.L = ListLogger()

        class RealHandler(logging.Handler):
            def emit(self, record):
                env.logged('L')

        self.real = logging.getLogger('verif_c09.caller_supplied')
        self.real_saved = (self.real.level, self.real.propagate)
        self.real.propagate = False
        self.real_handler = RealHandler()
        self.real.addHandler(self.real_handler)
        self.enabled = {'L': True, 'root': True}

        class Sub:
            """the library namespace with the public classes replaced by subclasses that override nothing"""
            pass

        sub = Sub()
        sub.__dict__.update(excutils.__dict__)
        sub.save_and_reraise_exception = type('save_and_reraise_exception', (excutils.save_and_reraise_exception,), {})
        sub.exception_filter = type('exception_filter', (excutils.exception_filter,), {})
        self.Xsub = sub
        self.handler = Handler()
        self.root = logging.getLogger()
        self.root.addHandler(self.handler)
        self.saved_fmt = traceback.format_exception
        saved = self.saved_fmt

        def format_exception(*a, **kw):
            env.pending = a
            return saved(*a, **kw)

        traceback.format_exception = format_exception

        class Caused(excutils.CausedByException):
            pass

        self.CAUSED = Caused

        def make_remove(E, k):
            def remove(path):
                raise E[k]
            return remove

        self.make_remove = make_remove
        self.noop = lambda path: path

        def delegating_remove(path):
            fileutils.delete_if_exists(path)

        self.delegating = delegating_remove
        self.twins = {}

        def make_filters(E, specs, how='decorator', excutils=excutils):
            """(FILT, OBJ) for the filter operations of one scenario, in rendering order.  All instance-method
            filters of the scenario live on ONE class (an instance per distinct table, and a decoy instance with
            the opposite table whose filter is looked up and used first); all classmethod filters on subclasses
            (one per table, plus a decoy) of ONE base class; the predicate reads the table from the function's
            closure / `self` / `cls` respectively."""
            if how == 'decorator':
                deco = excutils.exception_filter
            elif how == 'pos':
                def deco(f):
                    return excutils.exception_filter(f)
            else:
                def deco(f):
                    return excutils.exception_filter(should_ignore_ex=f)
            FILT, OBJ = [None] * len(specs), [None] * len(specs)
            forms = set(sp[0] for sp in specs)
            ids = range(len(E))
            if 1 in forms:
                class Ignorer:
                    def __init__(self, accept, raises, yes=True, no=False):
                        self.accept, self.raises, self.yes, self.no = accept, raises, yes, no

                    @deco
                    def pred(self, ex):
                        for k, v in enumerate(E):
                            if v is ex:
                                if k in self.raises:
                                    raise E[self.raises[k]]
                                return self.yes if k in self.accept else self.no
                        return self.no
                insts = {}
            if forms & {2, 3}:
                class IgnorerC:
                    accept, raises, yes, no = (), {}, True, False

                    @deco
                    @classmethod
                    def pred(cls, ex):
                        for k, v in enumerate(E):
                            if v is ex:
                                if k in cls.raises:
                                    raise E[cls.raises[k]]
                                return cls.yes if k in cls.accept else cls.no
                        return cls.no
                subs = {}
            decoyed = set()
            for j, (form, accept, raises, style) in enumerate(specs):
                rd = dict(raises)
                key = (accept, raises, style)
                yes, no = VALS[style[0]], VALS[style[1]]
                if form == 0:
                    @deco
                    def pred(ex, accept=accept, rd=rd, yes=yes, no=no):
                        for k, v in enumerate(E):
                            if v is ex:
                                if k in rd:
                                    raise E[rd[k]]
                                return yes if k in accept else no
                        return no
                    FILT[j] = pred
                elif form == 1:
                    if 1 not in decoyed:
                        decoyed.add(1)
                        decoy = Ignorer(tuple(k for k in ids if bool(yes if k in accept else no) is False), {})
                        with decoy.pred:
                            pass
                    if key not in insts:
                        insts[key] = Ignorer(accept, rd, yes, no)
                    OBJ[j] = insts[key]
                elif form in (2, 3):
                    if 2 not in decoyed:
                        decoyed.add(2)
                        decoy = type('DecoyC', (IgnorerC,), {'accept': tuple(
                            k for k in ids if bool(yes if k in accept else no) is False)})
                        with decoy.pred:
                            pass
                        with decoy().pred:
                            pass
                    if key not in subs:
                        subs[key] = type('IgnorerC%d' % len(subs), (IgnorerC,),
                                         {'accept': accept, 'raises': rd, 'yes': yes, 'no': no})
                    OBJ[j] = subs[key] if form == 2 else subs[key]()
                else:
                    class IgnorerS:
                        @deco
                        @staticmethod
                        def pred(ex, accept=accept, rd=rd, yes=yes, no=no):
                            for k, v in enumerate(E):
                                if v is ex:
                                    if k in rd:
                                        raise E[rd[k]]
                                    return yes if k in accept else no
                            return no
                    OBJ[j] = IgnorerS if form == 4 else IgnorerS()
            return FILT, OBJ

        self.make_filters = make_filters
        sre, flt = excutils.save_and_reraise_exception, excutils.exception_filter
        self.codes = {
            sre.__exit__.__code__: 'X', sre.force_reraise.__code__: 'F', sre.capture.__code__: 'K',
            flt.__exit__.__code__: 'FE', flt.__call__.__code__: 'C',
            excutils.raise_with_cause.__code__: 'W',
            fileutils.remove_path_on_error.__wrapped__.__code__: 'G',
            contextlib._GeneratorContextManager.__exit__.__code__: 'CM',
            fileutils.delete_if_exists.__code__: 'D',
            _O0.__code__: 'O0', _O1.__code__: 'O1', _invoke.__code__: 'H',
        }
        for c in make_filters.__code__.co_consts:
            # the four predicate functions are nested code objects of make_filters (directly or in a class body)
            if hasattr(c, 'co_consts'):
                for c2 in (c,) + tuple(x for x in c.co_consts if hasattr(x, 'co_consts')):
                    if c2.co_name == 'pred':
                        self.codes[c2] = 'P'
        self.codes[make_remove([], 0).__code__] = 'R'
        self.codes[delegating_remove.__code__] = 'R'
        return self

    def __exit__(self, *a):
        traceback.format_exception = self.saved_fmt
        self.root.removeHandler(self.handler)
        self.real.removeHandler(self.real_handler)
        self.real.setLevel(self.real_saved[0])
        self.real.propagate = self.real_saved[1]
        shutil.rmtree(self.dir, ignore_errors=True)

    def logged(self, sink):
        self.log.append(self.pending)
        self.sinks.append(sink)
        self.pending = None

    def tags(self, tb, scen_code):
        out = []
        while tb is not None:
            code = tb.tb_frame.f_code
            out.append('S' if code is scen_code else self.codes.get(code, '?' + code.co_qualname))
            tb = tb.tb_next
        return out

    def build_path(self, p, kind):
        """make `p` a path of the given kind (link targets live next to it and are never the protected path)"""
        if os.path.isdir(p) and not os.path.islink(p):
            os.rmdir(p)
        elif os.path.lexists(p):
            os.unlink(p)
        tf, td = p + '.target-file', p + '.target-dir'
        if kind == 'file':
            open(p, 'w').close()
        elif kind == 'dir':
            os.mkdir(p)
        elif kind == 'lfile':
            if not os.path.exists(tf):
                open(tf, 'w').close()
            os.symlink(tf, p)
        elif kind == 'ldir':
            if not os.path.isdir(td):
                os.mkdir(td)
            os.symlink(td, p)
        elif kind == 'dangling':
            os.symlink(p + '.no-such-target', p)
        elif kind == 'loop':
            os.symlink(p, p)
        elif kind != 'absent':
            raise ValueError(kind)

    def set_path(self, kind):
        self.build_path(self.path, kind)

    def kind_of(self, p):
        """lstat-sense classification; a link whose target went missing reads as 'dangling'"""
        if os.path.islink(p):
            try:
                st = os.stat(p)
            except OSError as e:
                return 'loop' if e.errno == errno.ELOOP else 'dangling'
            return 'ldir' if stat.S_ISDIR(st.st_mode) else 'lfile'
        if os.path.isdir(p):
            return 'dir'
        return 'file' if os.path.lexists(p) else 'absent'

    def path_kind(self):
        return self.kind_of(self.path)

    def twin(self, kind):
        """Reference for the oracle: what a bare os.unlink does to an identically built twin path -
        'removed' (no directory entry left), 'enoent' (there was none), or 'error' (it cannot be unlinked)."""
        if kind not in self.twins:
            q = os.path.join(self.dir, 'twin')
            self.build_path(q, kind)
            try:
                os.unlink(q)
                res = 'removed' if not os.path.lexists(q) else 'still-there'
            except FileNotFoundError:
                res = 'enoent'
            except OSError:
                res = 'error'
            self.build_path(q, 'absent')
            self.twins[kind] = res
        return self.twins[kind]

    def make_excs(self, kinds):
        E, classes, preset = [], [], []
        for k, kind in enumerate(kinds):
            base = KIND_BASE.get(kind, Exception)
            if kind in KIND_ARGS:
                def __init__(self, a, b, _base=base):
                    _base.__init__(self, a, b)
                cls = type('U%d' % k, (base,), {'__init__': __init__})
                obj = cls('tag%d' % k, k)
            else:
                cls = type('U%d' % k, (base,), {})
                obj = cls('tag%d' % k)
            if kind == 'ctx':
                obj.__context__ = ValueError('context-of-%d' % k)     # as if raised inside another handler
            if kind == 'prior':
                ex = _invoke(_O1, (obj,))
                assert ex is obj
                obj.__traceback__ = obj.__traceback__.tb_next        # drop the harness frame
            E.append(obj)
            classes.append(cls)
            preset.append(None)
        for k, kind in enumerate(kinds):
            if kind == 'chained':                  # as if raised `from` another exception
                E[k].__cause__ = E[cause_index(k)]        # (this also sets __suppress_context__)
                E[k].add_note('note-of-%d' % k)
        return E, classes, preset


class View:
    """Canonical naming of objects for one run (the same names the driver prints)."""

    def __init__(self, env, E, classes, preset, scen_code):
        self.env, self.E, self.classes, self.preset, self.scen = env, E, classes, preset, scen_code

    def index(self, obj):
        for k, v in enumerate(self.E):
            if v is obj:
                return k
        return None

    def cls(self, c):
        for k, v in enumerate(self.classes):
            if c is v:
                return 'U%d' % k
        if c is RuntimeError or c is TypeError:
            return c.__name__
        if isinstance(c, type) and issubclass(c, OSError):
            return 'OSError'
        if c is self.env.CAUSED:
            return 'Caused'
        return '?' + getattr(c, '__name__', repr(c))

    def who(self, obj):
        if obj is None:
            return 'N'
        k = self.index(obj)
        return 'E%d' % k if k is not None else 'new:' + self.cls(type(obj))

    def tags(self, tb):
        return self.env.tags(tb, self.scen)

    def tb(self, tb, strip=False):
        t = self.tags(tb)
        if strip and t and t[0] == 'H':
            t = t[1:]
        return ','.join(t) or '-'

    def cause(self, obj):
        c = obj.__cause__
        if isinstance(obj, self.env.CAUSED) and getattr(obj, 'cause', None) is not c:
            return 'MISMATCH(%s,%s)' % (self.who(c), self.who(getattr(obj, 'cause', None)))
        return self.who(c)


def expected_from_model(rep, case, enabled):
    """The model says on which logger object error() is called (@S: the one the scenario's contexts report to,
    @I: the library's internal default one).  Name the physical logger and keep the calls whose logger is enabled
    for ERROR - what a handler on that logger sees."""
    head, sep, rest = rep.partition(' log=')
    if not sep:
        return rep
    logs, _, tail = rest.partition(' ')
    if logs == '-':
        return rep
    scen = 'root' if SRE_FORMS[forms_of(case)[0]][1] == 'omit' else 'L'
    kept = []
    for e in logs.split(';'):
        body, _, tag = e.rpartition('@')
        phys = scen if tag == 'S' else 'root'
        if enabled[phys]:
            kept.append('%s@%s' % (body, phys))
    return '%s log=%s %s' % (head, ';'.join(kept) or '-', tail)


def run_impl(env, case, spy=None):
    """Run one case on the real code; returns the canonical line (same format as the driver)."""
    body = case['body']
    forms = forms_of(case)
    r = render(body, spy is not None, forms)
    E, classes, preset = env.make_excs(case['kinds'])
    view = View(env, E, classes, preset, r.fn.__code__)
    uses_path = has_rp(body)
    if uses_path:
        env.set_path(case['path'])
    env.log, env.sinks, env.pending = [], [], None
    X = env.Xsub if case.get('sub') else env.X
    FILT, OBJ = env.make_filters(E, r.filt, FILTER_FORMS[forms[1]], X) if r.filt else ([], [])
    lg = case.get('lg') or 'mock'
    L = env.L
    root_saved = None
    if case.get('root'):
        root_saved = env.root.level
        env.root.setLevel(getattr(logging, case['root']))
    if lg != 'mock':
        L = env.real
        L.setLevel(getattr(logging, lg[1:]))
    # whether a record comes out of a logger is that logger's business: isEnabledFor(ERROR), now
    env.enabled = {'L': True if lg == 'mock' else L.isEnabledFor(logging.ERROR),
                   'root': env.root.isEnabledFor(logging.ERROR)}
    RMS = {'n': env.noop, 'w': env.delegating, 'd': env.FU.delete_if_exists}
    for k in range(len(E)):
        RMS[k] = env.make_remove(E, k)
    OUT = []
    if spy is not None:
        spy.bind(env, view, r.filt)
    try:
        ex = _invoke(r.fn, (E, L, X, env.FU, FILT, OBJ, env.path, RMS, env.CAUSED, spy, bool(case['flag']), OUT))
    finally:
        if root_saved is not None:
            env.root.setLevel(root_saved)
    if ex is None:
        out = 'out=ok tb=- cause=-'
    else:
        out = 'out=R:%s tb=%s cause=%s' % (view.who(ex), view.tb(ex.__traceback__, True), view.cause(ex))
    log = []
    for a, sink in zip(env.log, env.sinks):
        if a is None or len(a) != 3:
            log.append('?/%s@%s' % (repr(a)[:40], sink))
        else:
            log.append('%s/%s@%s' % (view.who(a[1]), view.tb(a[2]), sink))
    path = env.path_kind() if uses_path else case['path']
    if OUT:
        c0 = OUT[0]
        ctx = '%s:%s:%s:%s' % (B(c0.reraise) if isinstance(c0.reraise, bool) else repr(c0.reraise),
                               'N' if c0.type_ is None else view.cls(c0.type_), view.who(c0.value),
                               view.tb(c0.tb))
    else:
        ctx = '?'
    tbs = '|'.join(view.tb(e.__traceback__, e is ex) for e in E)
    chain = '|'.join('%s/%d' % (view.who(e.__cause__), B(e.__suppress_context__)) for e in E)
    line = '%s log=%s path=%s ctx=%s tbs=%s chain=%s' % (out, ';'.join(log) or '-', path, ctx, tbs, chain)
    # break reference cycles exception <-> traceback <-> frame promptly
    for e in E:
        e.__traceback__ = e.__cause__ = e.__context__ = None
    if ex is not None:
        ex.__traceback__ = None
    return line


# --------------------------------------------------------------------------
# enumeration

def leaves(ids=(0, 1)):
    out = [['cap']]
    for k in ids:
        out += [['rc', k], ['rn', k]]
    out += [['sr', 0], ['sr', 1], ['fr', 0], ['fr', 1]]
    return out


_seqs_cache = {}


def seqs(n, ids=(0, 1)):
    """all bodies (as item lists) of exactly n operations over the base alphabet"""
    key = (n, ids)
    if key in _seqs_cache:
        return _seqs_cache[key]
    if n == 0:
        res = [[]]
    else:
        res = []
        for first in range(1, n + 1):          # size of the first item
            items = []
            if first == 1:
                items += leaves(ids)
            for sub in seqs(first - 1, ids):
                inner = seq_of(sub)
                items += [['nest', 0, inner], ['nest', 1, inner]]
                items += [['h', k, inner] for k in ids]
            for it in items:
                for rest in seqs(n - first, ids):
                    res.append([it] + rest)
    _seqs_cache[key] = res
    return res


def bodies_upto(n):
    for m in range(0, n + 1):
        for s in seqs(m):
            yield seq_of(s)


# operations on a context whose `with` block has already ended normally
LATES = [['fr', 0], ['fr', 1], ['cap'], ['seq', ['cap'], ['fr', 0]], ['seq', ['fr', 1], ['fr', 0]],
         ['seq', ['sr', 1], ['fr', 0]], ['seq', ['rc', 0], ['fr', 0]]]

# ways of leaving a with block with the flag off / on: never touched, switched off, off-on, off-on-off, ...
FLAG_PATTERNS = [['nop'], ['sr', 0], ['sr', 1], ['seq', ['sr', 0], ['sr', 1]],
                 ['seq', ['sr', 0], ['seq', ['sr', 1], ['sr', 0]]], ['seq', ['rc', 1], ['sr', 0]],
                 ['seq', ['sr', 1], ['sr', 0]], ['h', 1, ['sr', 0]]]
# what happens to the context object between two uses
REUSE_BETWEEN = [None, ['h', 2, ['cap']], ['sw', ['fr', 0]], ['sw', ['h', 2, ['ec', ['nop']]]]]

PREDS = [([0], []), ([1], []), ([], []), ([0, 1], []), ([], [[0, 1]]), ([1], [[0, 0]]), ([0], [[1, 0]])]


def random_body(rng, budget, depth=0, entered=False):
    """random body over the whole grammar with about `budget` operations; `entered` says the context the
    operations address is inside its own with block (it is then not entered again: not modelled by the oracle)"""
    items = []
    while budget > 0:
        r = rng.random()
        k = rng.randrange(3)
        if depth < 4 and budget > 1 and r < 0.38:
            sub_budget = rng.randrange(1, budget)
            kind = rng.choice(['nest', 'nest', 'h', 'h', 'fx', 'rp', 'nt', 'hnt', 'ec', 'sw', 'sw'])
            if kind == 'ec' and entered:
                kind = 'h'
            sub = random_body(rng, sub_budget, depth + 1,
                              entered=True if kind in ('nest', 'nt', 'hnt', 'ec') else entered)
            if kind == 'nest':
                items.append(['nest', rng.randrange(2), sub])
            elif kind == 'ec':
                items.append(['ec', sub])
            elif kind == 'sw':
                items.append(['sw', sub])
            elif kind in ('nt', 'hnt'):
                # a body that usually completes with the flag off, then operations on the exited context
                inner = seq_of([sub, ['sr', 0]]) if rng.random() < 0.6 else sub
                r2 = rng.random()
                late = (rng.choice(LATES) if r2 < 0.6 else
                        ['ec', random_body(rng, rng.randrange(1, 3), depth + 1, True)] if r2 < 0.8 else
                        random_body(rng, rng.randrange(1, 3), depth + 1, False))
                items.append(['nt', rng.randrange(2), inner, late] if kind == 'nt'
                             else ['hnt', k, rng.randrange(2), inner, late])
            elif kind == 'h':
                items.append(['h', k, sub])
            elif kind == 'fx':
                acc, rais = rng.choice(PREDS)
                items.append(['fx', rng.choice(FORMS), acc, rais, sub, list(rng.choice(STYLES))])
            else:
                items.append(['rp', rng.choice(['d', 'd', 'n', 'w', 'r0', 'r1', 'r2']), sub])
            budget -= 1 + sub_budget
        else:
            c = rng.randrange(12)
            if c == 0:
                items.append(['nop'])
            elif c == 1:
                items.append(['rc', k])
            elif c == 2:
                items.append(['rn', k])
            elif c in (3, 4):
                items.append(['sr', rng.randrange(2)])
            elif c in (5, 6):
                items.append(['fr', rng.randrange(2)])
            elif c == 7:
                items.append(['cap'])
            elif c in (8, 9):
                acc, rais = rng.choice(PREDS)
                items.append(['fc', rng.choice(FORMS), acc, rais, k, list(rng.choice(STYLES))])
            elif c == 10:
                items.append(['rwc', rng.choice(['N', 'none', 0, 1, 2])])
            else:
                items.append(['rc', k])
            budget -= 1
    return seq_of(items)


LOGGING_BODIES = [['h', 0, ['nest', 1, ['rn', 1]]], ['h', 0, ['nest', 0, ['rn', 1]]],
                  ['h', 0, ['nest', 1, ['seq', ['sr', 0], ['rn', 1]]]], ['h', 0, ['nest', 0, ['seq', ['sr', 1], ['rn', 1]]]],
                  ['rp', 'r1', ['rn', 0]], ['rp', 'd', ['rn', 0]], ['h', 0, ['ec', ['rn', 1]]],
                  ['h', 0, ['nest', 1, ['h', 1, ['nest', 1, ['rn', 2]]]]], ['h', 0, ['nest', 1, ['rp', 'r2', ['rn', 1]]]],
                  ['h', 0, ['nest', 1, ['nop']]]]


def logging_cases(rng):
    """caller-supplied logger (mock / real with its own level) x level of the root logger x how the logger is passed:
    the real logger's level differs from the root's in both directions"""
    for lg in LOGGERS:
        for root in ROOT_LEVELS:
            for cf in (0, 3, 5, 7):
                for body in LOGGING_BODIES:
                    for flag in (0, 1):
                        yield {'flag': flag, 'kinds': ['plain', 'args', 'plain'], 'path': 'dir' if body[1] == 'd' else 'file',
                               'forms': [cf, 0, 0, 0], 'lg': lg, 'root': root, 'body': body}


def gen_cases(ctx):
    rng = ctx.rng
    amb = getattr(ctx, 'ambient', None)       # a child of the ambient sweep: about a third of the budget
    n = 3 if ctx.quick else 4
    # 1. context-manager form: try: raise E[0] / except: with sre(reraise=b) as c: BODY
    # 2. direct-call form: c0 = sre(reraise=flag); BODY
    for m in range(0, n + 1):
        if m <= 2:
            kind_sets = [[k, k, 'plain'] for k in KINDS]
        elif m == 3:
            kind_sets = [[k, k, 'plain'] for k in (('plain',) if amb else ('plain', 'args', 'chained'))]
        else:
            kind_sets = [['plain', 'args', 'plain']]
        for si, s in enumerate(seqs(m)):
            if amb and m == 3 and si % 3 != ctx.seed % 3:
                continue                    # a third of the three-operation bodies in a child of the sweep
            body = seq_of(s)
            extra = ([rng.choice(KINDS), rng.choice(KINDS), 'plain'] if m > 3 else
                     [rng.choice(['prior', 'base', 'ctx'] + KINDS_EXIT)] * 2 + ['plain'] if m == 3 else None)
            for kinds in kind_sets + ([extra] if extra else []):
                for b in (0, 1):
                    yield {'flag': 1, 'kinds': kinds, 'path': 'file',
                           'body': ['h', 0, ['nest', b, body]]}, 'ctx-form/%d' % m
                    yield {'flag': b, 'kinds': kinds, 'path': 'file', 'body': body}, 'direct-form/%d' % m
    # 3. exception_filter, both ways of making it, as context manager and called directly;
    #    remove_path_on_error; raise_with_cause - around / after every small body
    small = list(bodies_upto(2))
    wrappers = [lambda x: x, lambda x: ['h', 0, x], lambda x: ['h', 0, ['nest', 1, x]],
                lambda x: ['h', 1, ['seq', ['rc', 0], x]]]
    for bound in FORMS:
        for acc, rais in PREDS:
            for inner in (small if bound <= 1 or not ctx.quick else small[:15]):
                yield {'flag': 1, 'kinds': ['plain', 'plain', 'plain'], 'path': 'file',
                       'body': ['fx', bound, acc, rais, inner]}, 'filter-ctx/%d' % bound
            for w in wrappers:
                for k in (0, 1):
                    for kind in (KINDS if bound <= 1 else ['plain', 'chained']):
                        yield {'flag': 1, 'kinds': [kind, kind, 'plain'], 'path': 'file',
                               'body': w(['fc', bound, acc, rais, k])}, 'filter-call/%d' % bound
    # every kind of answer object (True/False, 1/0, match object/None, tuple, list, str, object(), objects with
    # __bool__, inverted) in every form, as context manager and called directly, for an accepted and another id
    for form in FORMS:
        for style in STYLES:
            for acc, rais in PREDS[:4]:
                for k in (0, 1):
                    kinds = ['plain', 'base', 'plain']
                    yield {'flag': 1, 'kinds': kinds, 'path': 'file',
                           'body': ['fx', form, acc, rais, ['rn', k], list(style)]}, 'filter-answer/ctx'
                    yield {'flag': 1, 'kinds': kinds, 'path': 'file',
                           'body': ['h', k, ['fc', form, acc, rais, k, list(style)]]}, 'filter-answer/call'
                    yield {'flag': 1, 'kinds': kinds, 'path': 'file',
                           'body': ['h', 0, ['nest', 1, ['fx', form, acc, rais, ['rn', k], list(style)]]]}, \
                        'filter-answer/in-sre'
    # several filters of one scenario: method forms share one class (two instances with different tables,
    # used interleaved: nested `with`, and one after the other), mixed with the other forms
    for f1 in FORMS:
        for f2 in ((1, 3) if ctx.quick and f1 not in (1, 3) else FORMS):
            for (a1, r1), (a2, r2) in itertools.product(PREDS[:4], PREDS[:5]):
                for k in (0, 1):
                    kinds = ['plain', 'chained', 'plain']
                    yield {'flag': 1, 'kinds': kinds, 'path': 'file',
                           'body': ['fx', f1, a1, r1, ['fx', f2, a2, r2, ['rn', k]]]}, 'filter-two/nested'
                    yield {'flag': 1, 'kinds': kinds, 'path': 'file',
                           'body': ['h', k, ['seq', ['fx', f1, a1, r1, ['rn', 1 - k]],
                                             ['seq', ['fc', f2, a2, r2, k], ['fc', f1, a1, r1, k]]]]}, 'filter-two/seq'
    for rm in REMOVERS:
        for path in PATHS:
            for inner in (small if path in ('absent', 'file', 'dir') and rm != 'w' or not ctx.quick else small[:15]):
                kinds = [rng.choice(KINDS), rng.choice(KINDS), 'plain']
                yield {'flag': 1, 'kinds': kinds, 'path': path, 'body': ['rp', rm, inner]}, 'rpoe'
            for kind in KINDS:
                for inner in (['rn', 0], ['nop'], ['h', 0, ['nest', 1, ['nop']]], ['h', 1, ['rn', 0]]):
                    yield {'flag': 1, 'kinds': [kind, kind, 'plain'], 'path': path,
                           'body': ['rp', rm, inner]}, 'rpoe'
    for x in ('N', 'none', 0, 1):
        for w in wrappers:
            for kind in KINDS:
                yield {'flag': 1, 'kinds': [kind, kind, 'plain'], 'path': 'file', 'body': w(['rwc', x])}, 'rwc'
    # 4. operations on the context after its `with` block ended normally (flag off at exit): inside the
    #    `except` clause (h 0 (nt …)) and after it (hnt 0 …)
    for m in range(0, (2 if amb else 3) if ctx.quick else 4):
        for sq in seqs(m):
            body = seq_of(sq)
            kind_sets = [[k, k, 'plain'] for k in KINDS] if m <= 1 else [[rng.choice(KINDS), rng.choice(KINDS), 'plain']]
            for late in LATES:
                for kinds in kind_sets:
                    for b in (0, 1):
                        yield {'flag': 1, 'kinds': kinds, 'path': 'file',
                               'body': ['h', 0, ['nt', b, body, late]]}, 'late-in-except/%d' % m
                        yield {'flag': 1, 'kinds': kinds, 'path': 'file',
                               'body': ['hnt', 0, b, body, late]}, 'late-after-except/%d' % m
    # 5. every way of having reraise off / on at exit x the exception classes (the exit-request families
    #    KeyboardInterrupt / SystemExit / GeneratorExit, with and without mandatory constructor arguments, and a
    #    direct BaseException subclass, next to plain ones) as the exception handled on entry
    for pat in FLAG_PATTERNS:
        for kind in KINDS:
            kinds = [kind, kind, 'plain']
            for b in (0, 1):
                yield {'flag': 1, 'kinds': kinds, 'path': 'file', 'body': ['h', 0, ['nest', b, pat]]}, 'flag-pattern'
                yield {'flag': b, 'kinds': kinds, 'path': 'file', 'body': ['h', 0, ['ec', pat]]}, 'flag-pattern'
                yield {'flag': 1, 'kinds': kinds, 'path': 'file',
                       'body': ['h', 0, ['nt', b, pat, ['fr', 0]]]}, 'flag-pattern'
                yield {'flag': 1, 'kinds': kinds, 'path': 'file', 'body': ['rp', 'd', ['h', 0, ['nest', b, pat]]]}, \
                    'flag-pattern'
    # 6. ONE context object used for several failures (created once, `with ctxt:` in each handler): after a normal
    #    re-raise, with reraise switched off, after a body exception, after force_reraise(), after an explicit
    #    capture() or another use in between
    ones = list(bodies_upto(1))
    for flag in (0, 1):
        for b1 in ones:
            for b2 in ones + [['sr', 1], ['seq', ['sr', 1], ['rn', 1]]]:
                for between in (REUSE_BETWEEN[:2] if amb else REUSE_BETWEEN):
                    kind_sets = [['plain', 'plain', 'plain'], ['args', 'kbdargs', 'plain']]
                    if between is None:
                        kind_sets += [[rng.choice(KINDS), rng.choice(KINDS), 'plain']]
                    for kinds in kind_sets:
                        yield {'flag': flag, 'kinds': kinds, 'path': 'file',
                               'body': seq_of([['sw', ['h', 0, ['ec', b1]]]] + ([between] if between else []) +
                                              [['h', 1, ['ec', b2]]])}, 'reuse/two'
    for b2 in ones + [['sr', 1]]:
        for b in (0, 1):
            for kind in ('plain', 'args', 'sysexit'):
                yield {'flag': 1, 'kinds': [kind, kind, 'plain'], 'path': 'file',
                       'body': ['h', 0, ['nt', b, ['sr', 0], ['ec', b2]]]}, 'reuse/nested-object'
    for _ in range(400 if ctx.quick else 20000):
        uses = [['h', rng.randrange(3), ['ec', seq_of([rng.choice(leaves((0, 1, 2)))
                                                       for _ in range(rng.randrange(0, 3))])]]
                for _ in range(3)]
        yield {'flag': rng.randrange(2), 'kinds': [rng.choice(KINDS) for _ in range(3)], 'path': 'file',
               'body': seq_of([['sw', uses[0]], ['sw', uses[1]], uses[2]])}, 'reuse/three'
    # 7. every legal call form of the pinned signatures, for the same logical arguments
    for cf in range(len(SRE_FORMS)):
        for body in bodies_upto((1 if amb else 2) if ctx.quick else 3):
            for b in (0, 1):
                kinds = [rng.choice(KINDS_CORE), rng.choice(KINDS_CORE), 'plain']
                yield {'flag': 1, 'kinds': kinds, 'path': 'file', 'forms': [cf, 0, 0, 0],
                       'body': ['h', 0, ['nest', b, body]]}, 'call-form/sre'
                yield {'flag': b, 'kinds': kinds, 'path': 'file', 'forms': [cf, 0, 0, 0],
                       'body': ['h', 0, ['ec', body]]}, 'call-form/sre'
        for pat in FLAG_PATTERNS:
            for late in LATES[:3]:
                for b in (0, 1):
                    yield {'flag': 1, 'kinds': ['plain', 'args', 'plain'], 'path': 'file', 'forms': [cf, 0, 0, 0],
                           'body': ['hnt', 0, b, pat, late]}, 'call-form/sre'
    for ff in range(len(FILTER_FORMS)):
        for form in FORMS:
            for (acc, rais), style in itertools.product(PREDS[:5], STYLES[:4]):
                for k in (0, 1):
                    yield {'flag': 1, 'kinds': ['plain', 'base', 'plain'], 'path': 'file', 'forms': [5, ff, 0, 0],
                           'body': ['fx', form, acc, rais, ['rn', k], list(style)]}, 'call-form/filter'
                    yield {'flag': 1, 'kinds': ['plain', 'base', 'plain'], 'path': 'file', 'forms': [5, ff, 0, 0],
                           'body': ['h', k, ['fc', form, acc, rais, k, list(style)]]}, 'call-form/filter'
    for pf in range(len(RPOE_FORMS)):
        for rm in REMOVERS:
            for path in PATHS:
                for inner in (['rn', 0], ['nop'], ['h', 0, ['nest', 1, ['nop']]], ['rn', 1]):
                    yield {'flag': 1, 'kinds': ['plain', 'kbd', 'plain'], 'path': path, 'forms': [5, 0, pf, 0],
                           'body': ['rp', rm, inner]}, 'call-form/rpoe'
    for wf in range(len(RWC_FORMS)):
        for x in ('N', 'none', 0, 1):
            for w in wrappers:
                yield {'flag': 1, 'kinds': ['plain', 'plain', 'plain'], 'path': 'file', 'forms': [5, 0, 0, wf],
                       'body': w(['rwc', x])}, 'call-form/rwc'
    # 8. the logger object the caller passed and the ambient logging configuration; subclasses of the public classes
    for case in logging_cases(rng):
        yield case, 'logger-level'
    for body in bodies_upto(1 if amb else 2):
        for b in (0, 1):
            yield {'flag': b, 'kinds': ['plain', 'args', 'plain'], 'path': 'file', 'sub': 1,
                   'body': ['h', 0, ['nest', b, body]]}, 'subclass'
    for form, (acc, rais), k in itertools.product(FORMS, PREDS[:5], (0, 1)):
        yield {'flag': 1, 'kinds': ['plain', 'plain', 'plain'], 'path': 'file', 'sub': 1,
               'body': ['fx', form, acc, rais, ['rn', k]]}, 'subclass'
        yield {'flag': 1, 'kinds': ['plain', 'plain', 'plain'], 'path': 'file', 'sub': 1,
               'body': ['h', k, ['fc', form, acc, rais, k]]}, 'subclass'
    # 9. random bodies over the whole grammar (random call forms, loggers, root levels)
    for _ in range((1500 if amb else 4000) if ctx.quick else 80000):
        body = random_body(rng, rng.randrange(1, 10))
        yield {'flag': rng.randrange(2), 'kinds': [rng.choice(KINDS) for _ in range(3)],
               'path': rng.choice(PATHS), 'body': body, 'lg': rng.choice(LOGGERS),
               'root': rng.choice(ROOT_LEVELS) if rng.random() < 0.4 else None, 'sub': int(rng.random() < 0.2),
               'forms': [rng.randrange(len(SRE_FORMS)), rng.randrange(len(FILTER_FORMS)),
                         rng.randrange(len(RPOE_FORMS)), rng.randrange(len(RWC_FORMS))]}, 'random'


def correspondence(ctx):
    out = []
    with Env() as env:
        batch = []

        def flush():
            replies = ctx.driver.ask_many([case_line(c) for c, _ in batch])
            for (case, tag), rep in zip(batch, replies):
                ctx.evaluations += 1
                ctx.count('corr/' + tag)
                try:
                    impl = run_impl(env, case)
                except SyntaxError:            # too many statically nested blocks
                    ctx.count('corr/skipped-too-deep')
                    continue
                ctx.count('out/' + impl.split(' ')[0][4:].replace('R:', ''))
                if has_helper(case['body']) and any(t != '-' for t in impl.rsplit('tbs=', 1)[1].split(' ')[0].split('|')):
                    ctx.nontrivial((case['flag'], tuple(case['kinds']), case['path'], ser(case['body']), forms_of(case),
                                    case.get('lg'), case.get('root'), case.get('sub')))
                if tag == 'random' or ctx.evaluations % 5000 == 1:
                    ctx.sample({'case': case, 'implementation': impl}, 6)
                rep = expected_from_model(rep, case, env.enabled)
                if impl != rep:
                    out.append(Disagreement(case, impl, rep))
            del batch[:]

        for case, tag in gen_cases(ctx):
            batch.append((case, tag))
            if len(batch) >= 50000:
                flush()
        flush()
    ctx.exhaustive = True
    return out


# --------------------------------------------------------------------------
# failing-input search: the property stated directly on the real helpers.  The scenario is rendered
# with probes (`SPY`) around every helper: what was being handled on entry, how the body ended,
# what came out.  No model involved.

class _Probe:
    def __init__(self, enter=None, exit=None):
        self._enter, self._exit = enter, exit

    def __enter__(self):
        if self._enter:
            self._enter()
        return self

    def __exit__(self, typ, val, tb):
        if self._exit:
            self._exit(val)
        return False


class Spy:
    def __init__(self):
        self.failures = []

    def bind(self, env, view, filt):
        self.env, self.view, self.filt = env, view, filt
        self.failures = []
        self.inst = {}

    def fail(self, kind, what, klass=None):
        self.failures.append({'kind': kind, 'what': what, 'class': klass})

    def rec(self, i):
        return self.inst.setdefault(i, {'orig': None, 't0': [], 'forced': 0, 'in': None})

    def made(self, i, obj, flag, sink):
        """a context was just constructed for the logical arguments (reraise=flag, logger -> sink), in whatever
        call form the case uses: its flag must be that flag"""
        r = self.rec(i)
        r['sink'] = sink
        if obj.reraise is not flag:
            self.fail('constructor-flag-wrong', 'save_and_reraise_exception constructed with reraise=%r has '
                      'reraise == %r' % (flag, obj.reraise))

    def snapshot(self, ex):
        return (ex, self.view.tags(ex.__traceback__) if ex is not None else [])

    @staticmethod
    def chain(ex):
        """everything besides identity and traceback that makes an exception the same with nothing lost"""
        if ex is None:
            return None
        return (ex.__cause__, ex.__context__, ex.__suppress_context__, ex.args,
                tuple(getattr(ex, '__notes__', None) or ()))

    def chain_lost(self, before, ex, active='same'):
        """Text saying what changed on `ex` since `before`, or None.  `active` is the exception that was being
        handled when `ex` was raised again by a `raise` statement: the interpreter itself then points
        __context__ at it (unless it is `ex` itself or nothing) - that is Python's doing, not the helper's."""
        if before is None or ex is None:
            return None
        w = self.view.who
        now = self.chain(ex)
        want_ctx = before[1]
        if active != 'same' and active is not None and active is not ex:
            want_ctx = active
        if now[0] is not before[0]:
            return '__cause__ was %s, now %s' % (w(before[0]), w(now[0]))
        if now[1] is not want_ctx:
            return '__context__ should be %s, now %s' % (w(want_ctx), w(now[1]))
        if now[2] != before[2]:
            return '__suppress_context__ was %r, now %r' % (before[2], now[2])
        if now[3] != before[3] or now[4] != before[4]:
            return 'args / notes changed: %r %r -> %r %r' % (before[3], before[4], now[3], now[4])
        return None

    # -- save_and_reraise_exception ---------------------------------------
    def sre_out(self, i):
        r = self.rec(i)

        def enter():
            # exc_info as seen by a callee of the frame that is about to run `with sre()`
            r['orig'], r['t0'] = self.snapshot(sys.exc_info()[1])
            r['active0'] = r['orig']     # what is being handled around the whole `with` statement
            r['forced'] = 0

        def exit(val):
            self.check_sre(i, r, val)
            if r['in'] is not None and r['in'][0] is None and r['in'][2]:
                # the body completed with the flag on: __exit__ itself called force_reraise(), which uses the
                # capture up (value and traceback are cleared) - a later force_reraise() on this object is a
                # second one (the state of finding N1)
                r['forced'] += 1
        return _Probe(enter, exit)

    def sre_in(self, i, c, obj=None):
        r = self.rec(i)
        if obj is not None and c is not obj:
            self.fail('enter-returned-other-object', '`with ctxt as c`: c is not ctxt')

        def exit(val):
            r['in'] = (val, self.view.tags(val.__traceback__) if val is not None else [], c.reraise,
                       len(self.env.log))
            r['inchain'] = self.chain(val)
            r['origchain'] = self.chain(r['orig'])       # the original as the body left it
        return _Probe(None, exit)

    def forced(self, i):
        r = self.rec(i)
        before = []

        def enter():
            before[:] = [r['orig'], list(r['t0']), r['forced'], self.chain(r['orig']), sys.exc_info()[1]]
            r['forced'] += 1

        def exit(val):
            orig, t0, n, chain0, active = before
            if n > 0:
                return       # second force_reraise() on the same capture: the state of finding N1
            w = self.view.who
            if orig is None:
                if type(val) is not RuntimeError:
                    self.fail('force-nothing-captured', 'force_reraise() with nothing captured gave %s' % w(val))
            elif val is not orig:
                self.fail('force-not-original', 'force_reraise() raised %s, captured was %s' % (w(val), w(orig)))
            elif t0 and self.view.tags(val.__traceback__)[-len(t0):] != t0:
                # also for a force_reraise() made after the `with` block ended normally: the saved object must
                # come with the traceback it had when it was saved
                self.fail('force-traceback-lost', 'traceback %s does not end with the captured %s'
                          % (self.view.tags(val.__traceback__), t0))
            else:
                tags = self.view.tags(val.__traceback__)
                added = tags[:len(tags) - len(t0)]
                lost = self.chain_lost(chain0, val, active)
                if added.count('S') > 1 or any(t not in ('S', 'F') for t in added):
                    self.fail('force-traceback-polluted', 'captured traceback %s came back as %s' % (t0, tags))
                elif lost:
                    self.fail('force-chain-lost', 'force_reraise() gave back %s but %s' % (w(val), lost))
        return _Probe(enter, exit)

    def captured(self, i):
        r = self.rec(i)

        def exit(val):
            if val is None:
                r['orig'], r['t0'] = self.snapshot(sys.exc_info()[1])
                r['forced'] = 0
        return _Probe(None, exit)

    def check_sre(self, i, r, out):
        w = self.view.who
        if r['in'] is None:
            return self.fail('sre-body-not-run', 'context %d: body did not run' % i)
        val, vtags, flag, log1 = r['in']
        orig, t0 = r['orig'], r['t0']
        dlog = len(self.env.log) - log1
        klass = None
        if val is not None:
            if out is not val:
                return self.fail('body-exception-replaced', 'body raised %s but %s came out' % (w(val), w(out)), klass)
            if self.view.tags(out.__traceback__) != vtags:
                return self.fail('body-exception-traceback-changed', '%s -> %s'
                                 % (vtags, self.view.tags(out.__traceback__)), klass)
            lost = self.chain_lost(r.get('inchain'), out)
            if lost:
                return self.fail('body-exception-chain-changed', '%s: %s' % (w(out), lost), klass)
            due = 1 if flag else 0
            # the record is seen iff the context's own logger is enabled for ERROR (its level, not the root's)
            seen = due if self.env.enabled.get(r.get('sink') or 'L', True) else 0
            if dlog != seen:
                return self.fail('original-logged-%d-times-flag-%s' % (dlog, bool(flag)),
                                 'body raised %s with reraise=%r: original logged %d time(s) on its logger (%s, enabled '
                                 'for ERROR: %s)' % (w(val), flag, dlog, r.get('sink'),
                                                     self.env.enabled.get(r.get('sink') or 'L', True)), klass)
            if seen and r['forced'] == 0:
                a = self.env.log[-1]
                if a is None or len(a) != 3 or a[1] is not orig:
                    return self.fail('logged-not-the-original', 'logged %r, original %s' % (a, w(orig)), klass)
            if seen and r.get('sink') and self.env.sinks[-1] != r['sink']:
                return self.fail('logged-to-the-wrong-logger', 'the dropped original went to %s, the context was '
                                 'given %s' % (self.env.sinks[-1], r['sink']), klass)
            return
        if dlog != 0:
            return self.fail('logged-on-normal-exit', 'body completed, %d log call(s)' % dlog, klass)
        if not flag:
            if out is not None:
                return self.fail('raised-with-reraise-off', 'body completed with reraise off, %s raised' % w(out), klass)
            return
        if orig is None:
            if type(out) is not RuntimeError:
                return self.fail('reraise-nothing-captured', 'nothing was being handled on entry; %s came out' % w(out),
                                 klass)
            return
        if out is not orig:
            # finding N1: force_reraise() was called on this context inside the body and the body went on to
            # complete; what comes out is a fresh instance of the original's class, or the TypeError of making one
            if r['forced'] > 0 and self.view.index(out) is None and type(out) in (type(orig), TypeError):
                klass = N1
            return self.fail('reraise-not-original',
                             'body completed with reraise on: %s came out instead of the original %s'
                             % (w(out), w(orig)), klass)
        tags = self.view.tags(out.__traceback__)
        if t0 and tags[-len(t0):] != t0:
            return self.fail('reraise-traceback-lost', 'traceback %s does not end with the original %s' % (tags, t0),
                             klass)
        added = tags[:len(tags) - len(t0)]
        if r['forced'] == 0 and (added.count('S') > 1 or any(t not in ('S', 'X', 'F') for t in added)):
            # only the re-raise itself (force_reraise, __exit__, the frame of the `with`) may be added
            return self.fail('reraise-traceback-polluted', 'original traceback %s came back as %s' % (t0, tags), klass)
        # (after a capture() in an inner handler the saved exception is not the one being handled around the
        # `with`; the interpreter then points its __context__ at the handled one when it is raised again)
        lost = self.chain_lost(r.get('origchain'), out, r.get('active0'))
        if lost and r['forced'] == 0:
            # the same object, but part of what it carried is gone
            return self.fail('reraise-chain-lost', 'the original %s was re-raised but %s' % (w(out), lost), klass)

    # -- probes that only record how a body ended --------------------------
    def plain_in(self, i, got=None, obj=None):
        r = self.rec(i)
        if got is not obj:
            self.fail('enter-returned-other-object', '`with filt as f`: f is not filt')

        def exit(val):
            r['in'] = (val, self.view.tags(val.__traceback__) if val is not None else [], None, len(self.env.log))
            r['inchain'] = self.chain(val)
            r['path'] = self.env.path_kind()
        return _Probe(None, exit)

    def verdict(self, j, ex):
        bound, acc, rais, style = self.filt[j]
        k = self.view.index(ex)
        rais = dict(rais)
        if k in rais:
            return ('raises', rais[k])
        # the predicate accepts when the object it returns is true (whatever object that is)
        answer = VALS[style[0]] if k in acc else VALS[style[1]]
        return ('accept', None) if answer else ('reject', None)

    def fx_out(self, i, j):
        r = self.rec(i)

        def exit(out):
            w = self.view.who
            if r['in'] is None:
                return self.fail('filter-body-not-run', 'filter %d' % j)
            val, vtags = r['in'][0], r['in'][1]
            if val is None:
                if out is not None:
                    self.fail('filter-invented', 'body completed, %s came out of the filter' % w(out))
                return
            v, k2 = self.verdict(j, val)
            if v == 'accept' and out is not None:
                self.fail('filter-not-suppressed', 'predicate accepts %s but %s propagated' % (w(val), w(out)))
            elif v == 'reject' and out is not val:
                self.fail('filter-suppressed-or-replaced', 'predicate rejects %s but %s came out' % (w(val), w(out)))
            elif v == 'reject' and self.view.tags(out.__traceback__) != vtags:
                self.fail('filter-traceback-changed', '%s -> %s' % (vtags, self.view.tags(out.__traceback__)))
            elif v == 'reject' and self.chain_lost(r.get('inchain'), out):
                self.fail('filter-chain-changed', '%s: %s' % (w(out), self.chain_lost(r.get('inchain'), out)))
            elif v == 'raises' and out is not self.view.E[k2]:
                self.fail('filter-predicate-exception-lost', 'predicate raised E%d, %s came out' % (k2, w(out)))
        return _Probe(None, exit)

    def fc(self, j, k):
        ex = self.view.E[k]
        before = []

        state = {}

        def enter():
            before[:] = self.view.tags(ex.__traceback__)
            state['chain'], state['active'] = self.chain(ex), sys.exc_info()[1]

        def exit(out):
            w = self.view.who
            v, k2 = self.verdict(j, ex)
            if v == 'accept' and out is not None:
                self.fail('filter-call-not-suppressed', 'predicate accepts E%d but %s was raised' % (k, w(out)))
            elif v == 'reject' and out is not ex:
                self.fail('filter-call-suppressed-or-replaced', 'predicate rejects E%d but %s came out' % (k, w(out)))
            elif v == 'reject' and before and self.view.tags(out.__traceback__)[-len(before):] != before:
                self.fail('filter-call-traceback-lost', '%s does not end with %s'
                          % (self.view.tags(out.__traceback__), before))
            elif v == 'reject' and self.chain_lost(state['chain'], out, state['active']):
                self.fail('filter-call-chain-changed', 'E%d: %s'
                          % (k, self.chain_lost(state['chain'], out, state['active'])))
            elif v == 'raises' and out is not self.view.E[k2]:
                self.fail('filter-call-predicate-exception-lost', 'predicate raised E%d, %s came out' % (k2, w(out)))
        return _Probe(enter, exit)

    # -- remove_path_on_error ---------------------------------------------
    def rp_out(self, i, rm):
        r = self.rec(i)

        def exit(out):
            w = self.view.who
            if r['in'] is None:
                return self.fail('rpoe-body-not-run', 'remove_path_on_error %d' % i)
            val, vtags, _, log1 = r['in']
            path0, path1 = r['path'], self.env.path_kind()
            dlog = len(self.env.log) - log1
            if val is None:
                if out is not None or path1 != path0 or dlog:
                    self.fail('rpoe-acted-without-error', 'body completed: out=%s path %s->%s log+%d'
                              % (w(out), path0, path1, dlog))
                return
            if not isinstance(val, Exception):
                # interpretation (see ASSUMPTIONS): not an "error"; must pass through untouched
                if out is not val or self.view.tags(out.__traceback__) != vtags or dlog or \
                        self.chain_lost(r.get('inchain'), out):
                    self.fail('rpoe-baseexception-not-passed', '%s in, %s out' % (w(val), w(out)))
                return
            raising = rm.startswith('r') and self.view.E[int(rm[1:])] is not val
            # reference: what a bare os.unlink does to an identically built twin of the protected path
            twin = self.env.twin(path0) if rm in ('d', 'w') else None
            if raising or twin == 'error':
                # remove itself failed: the new exception propagates, the original is logged
                want = self.view.E[int(rm[1:])] if raising else None
                ok = (out is want) if raising else (isinstance(out, OSError) and self.view.index(out) is None)
                if not ok:
                    self.fail('rpoe-remove-failure-lost', 'remove failed but %s came out' % w(out))
                elif self.env.enabled['root'] and (dlog != 1 or self.env.log[-1] is None or
                                                   self.env.log[-1][1] is not val):
                    # (the internal context reports to the default logger: the root)
                    self.fail('rpoe-original-not-logged', 'remove failed; original logged %d time(s)' % dlog)
                elif not self.env.enabled['root'] and dlog:
                    self.fail('rpoe-logged-although-disabled', 'root logger not enabled for ERROR, %d record(s)' % dlog)
                return
            if out is not val:
                return self.fail('rpoe-not-reraised', 'body raised %s, %s came out' % (w(val), w(out)))
            if self.view.tags(out.__traceback__) != vtags:
                return self.fail('rpoe-traceback-changed', '%s -> %s' % (vtags, self.view.tags(out.__traceback__)))
            if self.chain_lost(r.get('inchain'), out):
                return self.fail('rpoe-chain-lost', 'the original %s was re-raised but %s'
                                 % (w(out), self.chain_lost(r.get('inchain'), out)))
            if rm in ('d', 'w') and path1 != 'absent':
                # twin is 'removed' or 'enoent' here: no directory entry may be left (lexists sense)
                return self.fail('rpoe-path-not-removed', 'the path was %s (os.unlink on a twin: %s) and is %s after '
                                 'the error' % (path0, twin, path1))
            if rm not in ('d', 'w') and path1 != path0:
                return self.fail('rpoe-path-changed', 'custom remove: path %s -> %s' % (path0, path1))
            if dlog != (1 if rm.startswith('r') and self.env.enabled['root'] else 0):
                return self.fail('rpoe-logged', 'log +%d' % dlog)
        return _Probe(None, exit)

    # -- raise_with_cause ----------------------------------------------------
    def rwc(self, x):
        state = {}

        def enter():
            state['active'] = sys.exc_info()[1]

        def exit(out):
            w = self.view.who
            want = state['active'] if x == 'N' else (None if x == 'none' else self.view.E[int(x)])
            if type(out) is not self.env.CAUSED:
                self.fail('rwc-wrong-exception', '%s raised' % w(out))
            elif out.__cause__ is not want or out.cause is not want:
                self.fail('rwc-wrong-cause', 'cause %s / %s, wanted %s' % (w(out.__cause__), w(out.cause), w(want)))
        return _Probe(enter, exit)


def oracle(env, case):
    """First way the property fails on this case (dict kind/what/class), or None."""
    spy = Spy()
    try:
        run_impl(env, case, spy)
    except SyntaxError:
        return None
    return spy.failures[0] if spy.failures else None


# forever_retry_uncaught_exceptions(*args, **kwargs): bare decorator, called decorator, keywords retry_delay /
# same_log_delay in either order, applied by a plain call.  (Not in the Lean model: stated here directly.)
FR_FORMS = ['bare', 'call', 'empty-call', 'delay', 'log-delay', 'both', 'both-permuted']
FR_SCRIPTS = [[], ['a'], ['a', 'a', 'a'], ['a', 'b', 'b', 'a'], ['a', 'B!'], ['B!'], ['a', 'a', 'b', 'B!']]


def forever_retry_case(env, fc):
    """Run one decorated function; returns what is wrong (text) or None.  fc = {'form', 'delay', 'script'}:
    the function fails with Exception(msg) for every script entry ('X!' is a BaseException-only failure) and
    then returns a sentinel."""
    import time as time_mod
    from oslo_utils import timeutils
    X = env.X
    form, delay, script = fc['form'], fc['delay'], list(fc['script'])

    class Stop(BaseException):
        pass

    sentinel = object()
    calls, sleeps, logs, raised = [], [], [], []

    def work(*a, **kw):
        calls.append((a, kw))
        if len(calls) <= len(script):
            m = script[len(calls) - 1]
            ex = Stop(m) if m.endswith('!') else ValueError(m)
            raised.append(ex)
            raise ex
        return sentinel

    deco = X.forever_retry_uncaught_exceptions
    if form == 'bare':
        fn, want_delay = deco(work), 1.0
        # (the documented `@forever_retry_uncaught_exceptions` without parentheses)
    elif form == 'call':
        fn, want_delay = deco(work), 1.0
    elif form == 'empty-call':
        fn, want_delay = deco()(work), 1.0
    elif form == 'delay':
        fn, want_delay = deco(retry_delay=delay)(work), max(0.0, float(delay))
    elif form == 'log-delay':
        fn, want_delay = deco(same_log_delay=1000.0)(work), 1.0
    elif form == 'both':
        fn, want_delay = deco(retry_delay=delay, same_log_delay=1000.0)(work), max(0.0, float(delay))
    else:
        fn, want_delay = deco(same_log_delay=1000.0, retry_delay=delay)(work), max(0.0, float(delay))
    saved = (time_mod.sleep, timeutils.now, logging.exception)
    time_mod.sleep = lambda d: sleeps.append(d)
    timeutils.now = lambda: 0.0                      # frozen clock: the "same message" window never expires
    logging.exception = lambda *a, **kw: logs.append(a)
    try:
        out = _invoke2(fn, (1, 2), {'k': 3})
    finally:
        time_mod.sleep, timeutils.now, logging.exception = saved
    stop_at = next((i for i, m in enumerate(script) if m.endswith('!')), None)
    failures = script if stop_at is None else script[:stop_at]
    if getattr(fn, '__name__', None) != 'work':
        return 'the decorated function is called %r, not work' % getattr(fn, '__name__', None)
    if any(c != ((1, 2), {'k': 3}) for c in calls):
        return 'arguments not passed through: %r' % (calls,)
    if stop_at is None:
        if out != ('returned', sentinel):
            return 'after %d failures the call gave %r instead of the function\'s result' % (len(script), out)
        if len(calls) != len(script) + 1:
            return '%d calls for %d failures' % (len(calls), len(script))
    else:
        if out[0] != 'raised' or out[1] is not raised[stop_at]:
            return 'a BaseException-only failure must propagate as the same object; got %r' % (out,)
        if len(calls) != stop_at + 1:
            return '%d calls, the %dth raised a BaseException' % (len(calls), stop_at + 1)
    if sleeps != [want_delay] * len(failures):
        return 'sleeps %r, expected %d x %r' % (sleeps, len(failures), want_delay)
    want_logs = sum(1 for i, m in enumerate(failures) if i == 0 or failures[i - 1] != m)
    if len(logs) != want_logs:
        return '%d log call(s) for the failure messages %r, expected %d' % (len(logs), failures, want_logs)
    return None


def _invoke2(fn, a, kw):
    try:
        return ('returned', fn(*a, **kw))
    except BaseException as ex:      # noqa: B902
        return ('raised', ex)


def check_forever_retry(ctx, env):
    for form in FR_FORMS:
        for delay in (0.25, 0, -2, 3):
            for script in FR_SCRIPTS:
                fc = {'form': form, 'delay': delay, 'script': script}
                ctx.evaluations += 1
                why = forever_retry_case(env, fc)
                if why:
                    ctx.count('search/fail/forever-retry')
                    return Failure({'forever_retry': fc}, {'kind': 'forever-retry', 'what': why})
    return None


def shrink_body(body, still_fails):
    """smallest body (by replacing a node with one of its children, or dropping a side of a seq) that fails"""
    def variants(b):
        for c in children(b):
            yield c
        for i in CHILD_IDX.get(b[0], ()):
            for v in variants(b[i]):
                yield b[:i] + [v] + b[i + 1:]
    steps = 0
    progress = True
    while progress and steps < 300:
        progress = False
        for v in variants(body):
            steps += 1
            if still_fails(v):
                body, progress = v, True
                break
    return body


def search(ctx, seeds, full=False):
    rng = ctx.rng
    fails, seen = [], set()
    n = (30000 if full else 4000) if ctx.quick else (300000 if full else 50000)
    if getattr(ctx, 'ambient', None):
        n //= 3

    def candidates():
        for s in seeds[:300]:
            yield s
        # the small bodies in both forms first (cheap, and where a broken helper shows at once)
        for body in bodies_upto((2 if not full else 3) if not getattr(ctx, 'ambient', None) else 2):
            for b in (0, 1):
                for kinds in (['plain', 'plain', 'plain'], ['args', 'base', 'plain'], ['chained', 'ctx', 'plain'],
                              ['ctx', 'chained', 'plain']):
                    yield {'flag': 1, 'kinds': kinds, 'path': 'file', 'body': ['h', 0, ['nest', b, body]]}
                    yield {'flag': b, 'kinds': kinds, 'path': 'file', 'body': body}
        for case in logging_cases(rng):
            yield case
        for body in bodies_upto(1):
            for b in (0, 1):
                yield {'flag': b, 'kinds': ['plain', 'args', 'plain'], 'path': 'file', 'sub': 1,
                       'body': ['h', 0, ['nest', b, body]]}
        for cf in range(len(SRE_FORMS)):
            for body in bodies_upto(1):
                for b in (0, 1):
                    yield {'flag': 1, 'kinds': ['plain', 'args', 'plain'], 'path': 'file', 'forms': [cf, 0, 0, 0],
                           'body': ['h', 0, ['nest', b, body]]}
                    yield {'flag': b, 'kinds': ['plain', 'args', 'plain'], 'path': 'file', 'forms': [cf, 0, 0, 0],
                           'body': ['h', 0, ['ec', body]]}
        for ff, form, (acc, rais), k in itertools.product(range(len(FILTER_FORMS)), FORMS, PREDS[:4], (0, 1)):
            yield {'flag': 1, 'kinds': ['plain', 'base', 'plain'], 'path': 'file', 'forms': [5, ff, 0, 0],
                   'body': ['fx', form, acc, rais, ['rn', k]]}
            yield {'flag': 1, 'kinds': ['plain', 'base', 'plain'], 'path': 'file', 'forms': [5, ff, 0, 0],
                   'body': ['h', k, ['fc', form, acc, rais, k]]}
        for pf, rm, path in itertools.product(range(len(RPOE_FORMS)), REMOVERS, PATHS):
            for inner in (['rn', 0], ['nop']):
                yield {'flag': 1, 'kinds': ['plain', 'plain', 'plain'], 'path': path, 'forms': [5, 0, pf, 0],
                       'body': ['rp', rm, inner]}
        for wf, x in itertools.product(range(len(RWC_FORMS)), ('N', 'none', 0, 1)):
            yield {'flag': 1, 'kinds': ['plain', 'plain', 'plain'], 'path': 'file', 'forms': [5, 0, 0, wf],
                   'body': ['h', 0, ['rwc', x]]}
        for pat in FLAG_PATTERNS:
            for kind in KINDS:
                for b in (0, 1):
                    yield {'flag': 1, 'kinds': [kind, kind, 'plain'], 'path': 'file', 'body': ['h', 0, ['nest', b, pat]]}
                    yield {'flag': b, 'kinds': [kind, kind, 'plain'], 'path': 'file', 'body': ['h', 0, ['ec', pat]]}
        ones = list(bodies_upto(1))
        for flag in (0, 1):
            for b1 in ones:
                for b2 in ones + [['sr', 1]]:
                    for between in (REUSE_BETWEEN if full else REUSE_BETWEEN[:2]):
                        for kinds in (['plain', 'plain', 'plain'], ['args', 'sysargs', 'plain']):
                            yield {'flag': flag, 'kinds': kinds, 'path': 'file',
                                   'body': seq_of([['sw', ['h', 0, ['ec', b1]]]] + ([between] if between else []) +
                                                  [['h', 1, ['ec', b2]]])}
        for body in bodies_upto(1 if not full else 2):
            for late in LATES:
                for b in (0, 1):
                    for kinds in (['plain', 'plain', 'plain'], ['prior', 'args', 'plain'], ['chained', 'ctx', 'plain'],
                                  ['ctx', 'chained', 'plain']):
                        yield {'flag': 1, 'kinds': kinds, 'path': 'file', 'body': ['h', 0, ['nt', b, body, late]]}
                        yield {'flag': 1, 'kinds': kinds, 'path': 'file', 'body': ['hnt', 0, b, body, late]}
        for bound in FORMS:
            for acc, rais in PREDS:
                for inner in (['rn', 0], ['rn', 1], ['nop'], ['h', 0, ['nest', 1, ['nop']]]):
                    yield {'flag': 1, 'kinds': ['plain', 'base', 'plain'], 'path': 'file',
                           'body': ['fx', bound, acc, rais, inner]}
                for k in (0, 1):
                    yield {'flag': 1, 'kinds': ['chained', 'ctx', 'plain'], 'path': 'file',
                           'body': ['h', 0, ['fc', bound, acc, rais, k]]}
        for form in FORMS:
            for style in STYLES:
                for acc, rais in PREDS[:4]:
                    for k in (0, 1):
                        yield {'flag': 1, 'kinds': ['plain', 'base', 'plain'], 'path': 'file',
                               'body': ['fx', form, acc, rais, ['rn', k], list(style)]}
                        yield {'flag': 1, 'kinds': ['plain', 'base', 'plain'], 'path': 'file',
                               'body': ['h', k, ['fc', form, acc, rais, k, list(style)]]}
        for f1, f2 in ((1, 1), (3, 3), (1, 0), (2, 3), (5, 1)):
            for (a1, r1), (a2, r2) in itertools.product(PREDS[:4], PREDS[:4]):
                for k in (0, 1):
                    yield {'flag': 1, 'kinds': ['plain', 'plain', 'plain'], 'path': 'file',
                           'body': ['fx', f1, a1, r1, ['fx', f2, a2, r2, ['rn', k]]]}
                    yield {'flag': 1, 'kinds': ['plain', 'plain', 'plain'], 'path': 'file',
                           'body': ['h', k, ['seq', ['fc', f2, a2, r2, k], ['fc', f1, a1, r1, k]]]}
        for rm in REMOVERS:
            for path in PATHS:
                for kind in KINDS:
                    for inner in (['rn', 0], ['nop']):
                        yield {'flag': 1, 'kinds': [kind, 'plain', 'plain'], 'path': path, 'body': ['rp', rm, inner]}
        for _ in range(n):
            yield {'flag': rng.randrange(2), 'kinds': [rng.choice(KINDS) for _ in range(3)],
                   'path': rng.choice(PATHS),
                   'body': random_body(rng, rng.randrange(1, 9)), 'lg': rng.choice(LOGGERS),
                   'root': rng.choice(ROOT_LEVELS) if rng.random() < 0.4 else None, 'sub': int(rng.random() < 0.2),
                   'forms': [rng.randrange(len(SRE_FORMS)), rng.randrange(len(FILTER_FORMS)),
                             rng.randrange(len(RPOE_FORMS)), rng.randrange(len(RWC_FORMS))]}

    with Env() as env:
        for case in candidates():
            ctx.evaluations += 1
            why = oracle(env, case)
            if not why:
                continue
            ctx.count('search/fail/' + why['kind'])
            key = (why['kind'], why['class'])
            if key in seen:
                continue
            seen.add(key)

            def still(b, case=case, why=why):
                w = oracle(env, dict(case, body=b))
                return bool(w) and w['kind'] == why['kind'] and w['class'] == why['class']
            small = dict(case, body=shrink_body(case['body'], still))
            w2 = oracle(env, small) or why
            fails.append(Failure(small, {'kind': w2['kind'], 'what': w2['what']}, w2['class']))
            if len(fails) >= 6:
                break
        if len(fails) < 6:
            f = check_forever_retry(ctx, env)
            if f:
                fails.append(f)
        # the two entry points of one filter must agree: `with filt: raise e` ends normally exactly when
        # `filt(e)` returns, for the same predicate and the same answer object
        if len(fails) < 6:
            for form, style, (acc, rais), k in itertools.product(FORMS, STYLES, PREDS[:4], (0, 1)):
                ctx.evaluations += 1
                c1 = {'flag': 1, 'kinds': ['plain', 'base', 'plain'], 'path': 'file',
                      'body': ['fx', form, acc, rais, ['rn', k], list(style)]}
                c2 = dict(c1, body=['h', k, ['fc', form, acc, rais, k, list(style)]])
                o1, o2 = run_impl(env, c1).split(' ')[0], run_impl(env, c2).split(' ')[0]
                if (o1 == 'out=ok') != (o2 == 'out=ok'):
                    ctx.count('search/fail/filter-forms-disagree')
                    fails.append(Failure(c1, {'kind': 'filter-forms-disagree',
                                              'what': 'predicate answers %s for E%d: `with filt: raise E%d` gives %s '
                                                      'but `filt(E%d)` gives %s' % (
                                                          style[0] if k in acc else style[1], k, k, o1, k, o2),
                                              'direct_call_case': c2}))
                    break
    return fails


def classify(ctx, failure, listed_findings):
    """N1 only: a completed body with the flag on gave a fresh instance / TypeError instead of the original, the
    failing context had a direct force_reraise() before it was left (recorded by the probes) and the program is in
    the static class; every other failure is new."""
    kind = failure.detail.get('kind') if isinstance(failure.detail, dict) else None
    if 'body' not in failure.case:
        return None
    if failure.klass != N1 or kind != 'reraise-not-original' or not in_class_N1(failure.case['body']):
        return None
    return N1 if any(f.get('id') == N1 for f in listed_findings) else None


def witness_reproduces(ctx, finding):
    if finding.get('id') != N1:
        return False
    case = finding['witness']
    with Env() as env:
        why = oracle(env, case)
    model = ctx.driver.ask(case_line(case)) if ctx.driver else ''
    return bool(why) and why['class'] == N1 and why['kind'] == 'reraise-not-original' and 'out=R:new:' in model


def replay(ctx, payload):
    case = payload.get('failure', {}).get('case') or payload.get('case') or payload.get('witness')
    if not case:
        print('nothing to replay: this file names the obligation that no longer checks:')
        print(payload.get('no_longer_checks'))
        return 0
    if 'forever_retry' in case:
        with Env() as env:
            why = forever_retry_case(env, case['forever_retry'])
        print('forever_retry_uncaught_exceptions case %r' % (case['forever_retry'],))
        print('property oracle on the implementation:', why)
        return 1 if why else 0
    print(render(case['body'], False, forms_of(case)).src)
    print('flag=%s kinds=%s path=%s forms=%s logger=%s root-level=%s subclasses=%s'
          % (case['flag'], case['kinds'], case['path'], forms_of(case), case.get('lg') or 'mock',
             case.get('root') or '(as the process has it)', bool(case.get('sub'))))
    with Env() as env:
        print('implementation:', run_impl(env, case))
        print('model         :', expected_from_model(ctx.driver.ask(case_line(case)), case, env.enabled))
        why = oracle(env, case)
    print('property oracle on the implementation:', why)
    if why and why['class'] == N1 and in_class_N1(case['body']):
        print('(inside the class of known finding %s)' % N1)
    return 1 if why else 0


LEVEL_TEXT = ('Machine-checked proof (Lean 4) over a hand-written model of save_and_reraise_exception, exception_filter, '
              'remove_path_on_error and raise_with_cause, for every handler body (induction on the program), every '
              'initial flag and every exception: the saved triple is changed by nothing but capture/force_reraise; a '
              'completed body with the flag on re-raises the very exception that was handled on entry with its own '
              'traceback under three helper frames; flag off is silent; a raising body propagates its exception '
              'untouched and the original is logged iff the flag is on; exception_filter suppresses iff the predicate '
              'accepts (both ways of making it, context manager and call); remove_path_on_error removes then re-raises '
              'the same object with the traceback it had (for Exception subclasses - BaseException-only exceptions pass '
              'through without removal, proved as a negative); capture re-targets; raise_with_cause takes the active '
              'exception as cause; every pre-existing exception keeps its class, __cause__ and __suppress_context__ through every '
              'program (exec_preserves_chain); __get__ binds the very instance / class it is looked up through. Finding N1 (force_reraise caught in the body, then normal exit invents a fresh '
              'instance / TypeError) is proved as a negative and listed as a known finding. The model is tied to the '
              'code by an exhaustive small-scope plus random differential correspondence on every run.')
LEVEL_NOTE = ('Trusted: Lean kernel; axioms propext/Quot.sound/Classical.choice only (audited each run); the hand model '
              'including its rendering of CPython raise/except/with/traceback growth and contextlib; the '
              'correspondence harness. Partial: traceback contents are compared as frame tags only; __context__ and '
              'greenthread switches are not modelled; remove_path_on_error theorem assumes an Exception subclass '
              '(interpretation).')
TECHNIQUE = 'Lean 4 theorems by induction over handler programs + model/implementation correspondence'
DESIGN_REF = 'DESIGN.md section 5, C09; finding N1 in section 6'
