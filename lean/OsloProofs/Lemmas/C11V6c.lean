/-
Helper lemmas for C11: context-free rejection lemmas for the `inet_pton6` model and its alphabet.
-/
import OsloProofs.Lemmas.C11V6b
set_option linter.unusedSimpArgs false
set_option linter.unusedVariables false
namespace Oslo.Net

/-- five hex digits at the start of a token are rejected whatever follows -/
theorem lemma_go6_five (st : P6) (h1 h2 h3 h4 h5 : Char) (rest : List Char) (hx : st.xd = 0)
    (e1 : isHex h1 = true) (e2 : isHex h2 = true) (e3 : isHex h3 = true) (e4 : isHex h4 = true)
    (e5 : isHex h5 = true) : go6 st (h1 :: h2 :: h3 :: h4 :: h5 :: rest) = none := by
  simp [go6, hx, e1, e2, e3, e4, e5]

/-- … and so are five hex digits right after any ':' -/
theorem lemma_go6_long_group (q : List Char) (st : P6) (h1 h2 h3 h4 h5 : Char) (rest : List Char)
    (e1 : isHex h1 = true) (e2 : isHex h2 = true) (e3 : isHex h3 = true) (e4 : isHex h4 = true)
    (e5 : isHex h5 = true) : go6 st (q ++ ':' :: h1 :: h2 :: h3 :: h4 :: h5 :: rest) = none := by
  induction q generalizing st with
  | nil =>
    simp only [List.nil_append]
    rw [go6]
    simp only [lemma_colon_not_hex, Bool.false_eq_true, if_false, if_true]
    split
    · split
      · rfl
      · exact lemma_go6_five _ _ _ _ _ _ _ (by simpa using ‹st.xd = 0›) e1 e2 e3 e4 e5
    · split
      · rfl
      · split
        · rfl
        · exact lemma_go6_five _ _ _ _ _ _ _ rfl e1 e2 e3 e4 e5
  | cons c q ih =>
    simp only [List.cons_append]
    rw [go6]
    have hmem : ∀ tk : List Char, pton4 (tk ++ '.' :: (q ++ ':' :: h1 :: h2 :: h3 :: h4 :: h5 :: rest)) = none :=
      fun tk => lemma_pton4_colon _ (by simp)
    simp only [ih, hmem]
    repeat' split
    all_goals rfl

/-- once `::` has been seen, another `::` is rejected -/
theorem lemma_go6_second_dcolon (y : List Char) (st : P6) (z : List Char) (hs : st.colon.isSome = true) :
    go6 st (y ++ ':' :: ':' :: z) = none := by
  induction y generalizing st with
  | nil =>
    simp only [List.nil_append]
    rw [go6]
    simp only [lemma_colon_not_hex, Bool.false_eq_true, if_false, if_true, hs]
    split
    · rfl
    · split
      · rfl
      · split
        · rfl
        · rw [go6]; simp [lemma_colon_not_hex, hs]
  | cons c y ih =>
    simp only [List.cons_append]
    rw [go6]
    have hmem : ∀ tk : List Char, pton4 (tk ++ '.' :: (y ++ ':' :: ':' :: z)) = none :=
      fun tk => lemma_pton4_colon _ (by simp)
    simp only [hmem, hs]
    repeat' split
    all_goals first | rfl | (apply ih; simp [hs])

/-- two `::` anywhere in the text are rejected -/
theorem lemma_go6_two_dcolons (x : List Char) (st : P6) (y z : List Char) :
    go6 st (x ++ ':' :: ':' :: (y ++ ':' :: ':' :: z)) = none := by
  induction x generalizing st with
  | nil =>
    simp only [List.nil_append]
    rw [go6]
    simp only [lemma_colon_not_hex, Bool.false_eq_true, if_false, if_true]
    split
    · split
      · rfl
      · rw [go6]; simp [lemma_colon_not_hex, ‹st.xd = 0›]
    · split
      · rfl
      · split
        · rfl
        · rw [go6]
          simp only [lemma_colon_not_hex, Bool.false_eq_true, if_false, if_true]
          split
          · rfl
          · exact lemma_go6_second_dcolon y _ z (by simp)
  | cons c x ih =>
    simp only [List.cons_append]
    rw [go6]
    have hmem : ∀ tk : List Char, pton4 (tk ++ '.' :: (x ++ ':' :: ':' :: (y ++ ':' :: ':' :: z))) = none :=
      fun tk => lemma_pton4_colon _ (by simp)
    simp only [ih, hmem]
    repeat' split
    all_goals rfl

/-- alphabet of accepted IPv6 text -/
def V6Char (c : Char) : Prop := isHex c = true ∨ c = ':' ∨ c = '.'

theorem lemma_go6_chars (s : List Char) (st : P6) (g : List Nat) (h : go6 st s = some g) :
    ∀ c ∈ s, V6Char c := by
  induction s generalizing st with
  | nil => simp
  | cons c rest ih =>
    rw [go6] at h
    intro x hx
    simp only [List.mem_cons] at hx
    by_cases hc : isHex c = true
    · simp only [hc, if_true] at h
      split at h
      · cases h
      · rcases hx with rfl | hx
        · exact Or.inl hc
        · exact ih _ h x hx
    · simp only [hc, Bool.false_eq_true, if_false] at h
      by_cases h2 : c = ':'
      · simp only [h2, if_true] at h
        have hrest : x ∈ rest → V6Char x := by
          intro hx
          split at h
          · split at h
            · cases h
            · exact ih _ h x hx
          · split at h
            · cases h
            · split at h
              · cases h
              · exact ih _ h x hx
        rcases hx with rfl | hx
        · exact Or.inr (Or.inl h2)
        · exact hrest hx
      · simp only [h2, if_false] at h
        by_cases h3 : c = '.'
        · simp only [h3, if_true] at h
          split at h
          · cases hq : pton4 (st.tok ++ '.' :: rest) with
            | none => rw [hq] at h; cases h
            | some q =>
              obtain ⟨a, b, c', d, ha, hb, hc', hd, e, _⟩ := lemma_pton4_some _ q hq
              rcases hx with rfl | hx
              · exact Or.inr (Or.inr h3)
              · have : x ∈ renderQuad a b c' d := by rw [← e]; simp [hx]
                rcases lemma_renderQuad_chars a b c' d ha hb hc' hd x this with hd' | hd'
                · exact Or.inl (by simp [isHex, hd'])
                · exact Or.inr (Or.inr hd')
          · cases h
        · simp only [h3, if_false] at h
          cases h

theorem lemma_pton6_chars (s : List Char) (g : List Nat) (h : pton6 s = some g) : ∀ c ∈ s, V6Char c := by
  unfold pton6 at h
  match s, h with
  | c :: rest, h =>
    simp only at h
    split at h
    · rename_i hc
      match rest, h with
      | c2 :: r2, h =>
        simp only at h
        split at h
        · intro x hx
          simp only [List.mem_cons] at hx
          rcases hx with rfl | hx
          · exact Or.inr (Or.inl hc)
          · exact lemma_go6_chars _ _ g h x (by simpa using hx)
        · cases h
    · exact lemma_go6_chars _ _ g h

theorem lemma_not_v6char : ¬ V6Char '%' ∧ ¬ V6Char '/' ∧ ¬ V6Char nul := by
  unfold V6Char; decide

end Oslo.Net
