"""Translator for C04/C08: the live `oslo_utils.strutils` tables -> lean/OsloModel/Generated/Mask.lean.

Reads *values* from the module imported from common.REPO: `_SANITIZE_KEYS` and the compiled pattern
objects in `_SANITIZE_PATTERNS_2/_1/_WILDCARD` (located by name, else by shape -- see `pattern_tables`).  Every compiled pattern is parsed with `re._parser.parse`
(flags as compiled) and must be *flat*:  `(g1) mid` or `(g1) mid (g2)` where g1/mid/g2 are sequences of
single-character items (LITERAL / NOT_LITERAL / IN / ANY) each optionally under one greedy MAX_REPEAT.
Anything else (alternation, nested repetition, anchors, lazy/possessive repeats, look-around, back
references, inline flags, non-ASCII class members, categories other than \\s and \\S) raises Untranslatable:
the framework then treats the obligations of C04/C08 as broken and runs the failing-input search.

Case-insensitivity is folded into the emitted classes the way `re` compiles it: under re.IGNORECASE a
character matches a set iff some member of its case-equivalence class (simple lower-case mapping
`_sre.unicode_tolower` plus `re._casefix._EXTRA_CASES`) is in the set.  For ASCII sets this adds exactly
U+0130 U+0131 (i), U+017F (s), U+212A (k); the rule is cross-checked against `re` itself on the whole
character domain for every distinct item on every run.
"""
import importlib
import os
import re
import sys

import common

try:                                    # Python >= 3.11
    import re._parser as sre_parse
    import re._constants as sre_c
    import re._casefix as sre_casefix
except ImportError:                     # pragma: no cover
    import sre_parse
    import sre_constants as sre_c
    sre_casefix = None
import _sre

OUT = os.path.join(common.LEAN, 'OsloModel', 'Generated', 'Mask.lean')


class Untranslatable(Exception):
    pass


# ---------------------------------------------------------------- interpreter facts

_facts = {}


def interpreter_facts():
    """Whitespace set, case-equivalents of ASCII letters, the lower() table -- from the running interpreter."""
    if _facts:
        return _facts
    ws = [c for c in range(0x110000) if not 0xD800 <= c <= 0xDFFF and chr(c).isspace()]
    probe = re.compile(r'\s')
    for c in ws + [0x41, 0x30, 0x200b, 0x180e, 0xfeff]:
        if bool(probe.fullmatch(chr(c))) != (c in ws):
            raise Untranslatable('\\s and str.isspace disagree on U+%04X' % c)
    # characters outside ASCII that re.IGNORECASE equates with an ASCII letter
    fold = {}
    for c in range(128, 0x110000):
        if 0xD800 <= c <= 0xDFFF:
            continue
        lo = _sre.unicode_tolower(c)
        if lo < 128 and chr(lo).isalpha():
            fold.setdefault(lo, set()).add(c)
    extra = getattr(sre_casefix, '_EXTRA_CASES', {}) if sre_casefix else {}
    for k, others in extra.items():
        for o in others:
            if k < 128 and o >= 128:
                fold.setdefault(_sre.unicode_tolower(k), set()).add(o)
    fold = {k: sorted(v) for k, v in sorted(fold.items())}
    # str.lower(): every character whose lower-casing produces an ASCII character, and the domain
    lower = []
    for c in range(0x110000):
        if 0xD800 <= c <= 0xDFFF:
            continue
        lo = chr(c).lower()
        if lo != chr(c) and (c < 128 or any(ord(x) < 128 for x in lo)):
            lower.append((c, [ord(x) for x in lo]))
    extras = sorted(x for v in fold.values() for x in v)
    for c in extras:
        lo = chr(c).lower()
        if lo != chr(c) and (c, [ord(x) for x in lo]) not in lower:
            lower.append((c, [ord(x) for x in lo]))
    _facts.update(ws=ws, fold=fold, lower=sorted(lower), extras=extras)
    _facts['domain'] = sorted(set(range(128)) | set(ws) | set(extras))
    return _facts


def to_ranges(points):
    out = []
    for p in sorted(set(points)):
        if out and out[-1][1] + 1 == p:
            out[-1][1] = p
        else:
            out.append([p, p])
    return [tuple(r) for r in out]


def fold_points(points, ignorecase):
    """Close an ASCII code-point set under re.IGNORECASE equivalence."""
    if not ignorecase:
        return set(points)
    fold = interpreter_facts()['fold']
    out = set(points)
    for p in points:
        ch = chr(p)
        if p < 128 and ch.isalpha():
            out.add(ord(ch.lower()))
            out.add(ord(ch.upper()))
            out.update(fold.get(ord(ch.lower()), ()))
    return out


# ---------------------------------------------------------------- AST -> flat items

def _class_of(node, flags):
    """(neg, ranges) for a single-character node, case folding applied."""
    op, av = node
    ic = bool(flags & re.IGNORECASE)
    ws = interpreter_facts()['ws']

    def ascii_only(p):
        if p >= 128:
            raise Untranslatable('non-ASCII class member U+%04X' % p)
        return p

    if op is sre_c.LITERAL:
        return False, to_ranges(fold_points([ascii_only(av)], ic))
    if op is sre_c.NOT_LITERAL:
        return True, to_ranges(fold_points([ascii_only(av)], ic))
    if op is sre_c.ANY:
        if flags & re.DOTALL:
            return True, []
        return True, [(10, 10)]
    if op is sre_c.IN:
        neg = False
        pts, space, notspace = set(), False, False
        for i, (o, a) in enumerate(av):
            if o is sre_c.NEGATE:
                if i != 0:
                    raise Untranslatable('NEGATE not first in class')
                neg = True
            elif o is sre_c.LITERAL:
                pts.add(ascii_only(a))
            elif o is sre_c.RANGE:
                ascii_only(a[0]), ascii_only(a[1])
                pts.update(range(a[0], a[1] + 1))
            elif o is sre_c.CATEGORY and a is sre_c.CATEGORY_SPACE:
                space = True
            elif o is sre_c.CATEGORY and a is sre_c.CATEGORY_NOT_SPACE:
                notspace = True
            else:
                raise Untranslatable('class member %s %s is outside the flat fragment' % (o, a))
        pts = fold_points(pts, ic)
        if notspace:
            if space:
                raise Untranslatable('\\s and \\S in one class')
            # [\S...] : everything but whitespace (members are non-space already)
            if any(p in ws for p in pts):
                raise Untranslatable('\\S mixed with whitespace members')
            return (not neg), to_ranges(ws)
        if space:
            pts |= set(ws)
        return neg, to_ranges(pts)
    raise Untranslatable('node %s is outside the flat fragment' % (op,))


def _items(seq, flags):
    out = []
    for node in seq:
        op, av = node
        if op is sre_c.MAX_REPEAT:
            lo, hi, body = av
            if len(body) != 1:
                raise Untranslatable('repeat over a sequence (not flat)')
            if body[0][0] in (sre_c.MAX_REPEAT, sre_c.MIN_REPEAT, sre_c.SUBPATTERN, sre_c.BRANCH) or \
                    body[0][0] not in (sre_c.LITERAL, sre_c.NOT_LITERAL, sre_c.IN, sre_c.ANY):
                raise Untranslatable('nested repetition / group under a repeat (not flat)')
            neg, rng = _class_of(body[0], flags)
            out.append((neg, tuple(rng), int(lo), None if hi == sre_c.MAXREPEAT else int(hi)))
        elif op in (sre_c.LITERAL, sre_c.NOT_LITERAL, sre_c.IN, sre_c.ANY):
            neg, rng = _class_of(node, flags)
            out.append((neg, tuple(rng), 1, 1))
        else:
            raise Untranslatable('node %s is outside the flat fragment' % (op,))
    return out


def flat_pattern(compiled):
    """(g1, mid, g2) item lists of a compiled pattern, or Untranslatable."""
    flags = compiled.flags
    allowed = re.IGNORECASE | re.DOTALL | re.UNICODE
    if flags & ~allowed:
        raise Untranslatable('flags %r outside IGNORECASE|DOTALL|UNICODE' % (flags,))
    if not isinstance(compiled.pattern, str):
        raise Untranslatable('bytes pattern')
    tree = sre_parse.parse(compiled.pattern, flags & ~re.UNICODE)
    if tree.state.flags & ~allowed:
        raise Untranslatable('inline flags')
    nodes = list(tree)
    if not nodes or nodes[0][0] is not sre_c.SUBPATTERN:
        raise Untranslatable('pattern does not start with group 1')

    def group(node, want):
        gid, add, dele, body = node[1]
        if gid != want or add or dele:
            raise Untranslatable('group %r with flags / wrong number (want %d)' % (gid, want))
        return _items(body, flags)

    g1 = group(nodes[0], 1)
    rest = nodes[1:]
    g2 = None
    if rest and rest[-1][0] is sre_c.SUBPATTERN:
        g2 = group(rest[-1], 2)
        rest = rest[:-1]
    mid = _items(rest, flags)         # raises on any further group
    if compiled.groups != (2 if g2 is not None else 1):
        raise Untranslatable('group count %d does not fit (g1) mid (g2)' % compiled.groups)
    return g1, mid, g2, flags


def key_items(key, ignorecase):
    return [(False, tuple(to_ranges(fold_points([ord(c)], ignorecase))), 1, 1) for c in key]


def abstract(items, key, ignorecase):
    """Replace each run of items spelling the key by the marker 'KEY'."""
    ki = key_items(key, ignorecase)
    out, i, n = [], 0, len(ki)
    while i < len(items):
        if n and items[i:i + n] == ki:
            out.append('KEY')
            i += n
        else:
            out.append(items[i])
            i += 1
    return out


# ---------------------------------------------------------------- locating the private tables

PINNED_KEYS = '_SANITIZE_KEYS'
PINNED_TABLES = {'2': '_SANITIZE_PATTERNS_2', '1': '_SANITIZE_PATTERNS_1', 'W': '_SANITIZE_PATTERNS_WILDCARD'}
PINNED_FORMATS = {'2': '_FORMAT_PATTERNS_2', '1': '_FORMAT_PATTERNS_1', 'W': '_FORMAT_PATTERNS_WILDCARD'}
_PATTERN_TYPE = type(re.compile(''))
_located = {}


def _blind(msg):
    import whitebox
    return whitebox.HarnessBlind('strutils mask tables: ' + msg)


def _is_key_list(v):
    return isinstance(v, (list, tuple)) and len(v) >= 5 and all(isinstance(x, str) and x for x in v) \
        and 'password' in v and 'token' in v


def sanitize_keys(mod):
    """The sanitize key list: the pinned name, else the one module-level list/tuple of str that looks like it."""
    v = getattr(mod, PINNED_KEYS, None)
    if _is_key_list(v):
        return list(v)
    cands = [x for n, x in vars(mod).items() if _is_key_list(x)]
    if len(cands) == 1 or (cands and all(list(c) == list(cands[0]) for c in cands)):
        return list(cands[0])
    raise _blind('cannot locate the sanitize key list (%d candidates)' % len(cands))


def _leaf_groups(value, path=()):
    """Ordered (path, [compiled patterns]) leaves of a per-key record: list / tuple / namedtuple / dict, nested."""
    if isinstance(value, _PATTERN_TYPE):
        return [(path, [value])]
    if isinstance(value, dict):
        value = list(value.items())
        out = []
        for k, x in value:
            out += _leaf_groups(x, path + (str(k),))
        return out
    if isinstance(value, (list, tuple)):
        if value and all(isinstance(x, _PATTERN_TYPE) for x in value):
            return [(path, list(value))]
        names = getattr(value, '_fields', None)
        out = []
        for i, x in enumerate(value):
            out += _leaf_groups(x, path + ((names[i] if names else str(i)),))
        return out
    return []


def _format_tables(mod):
    """{'2'|'1'|'W': [format strings]} from the pinned `_FORMAT_PATTERNS_*` names (list or tuple), else None."""
    out = {}
    for g, name in PINNED_FORMATS.items():
        v = getattr(mod, name, None)
        if not (isinstance(v, (list, tuple)) and v and all(isinstance(x, str) and '%(key)s' in x for x in v)):
            return None
        out[g] = list(v)
    return out


PROBES = ['{"password": "abc", "user": "bob"}', 'password=abc def', "password = 'x y' z", '--password a b',
          '<password>x</password> "q" \'r\'', '"token": "a"b" c "d"', 'password --f x y', "'password', '--f', 'v' w",
          'password "a b" c', "u'token': u'x' 'y'", 'token=a"b', 'password=\'a\' "password": "b" \'c\'']


def _reference(mod, keys, tables, message, mask):
    for key in keys:
        if key in message.lower():
            for p in tables['2'][key]:
                message = p.sub(r'\g<1>' + mask + r'\g<2>', message)
            for p in tables['1'][key]:
                message = p.sub(r'\g<1>' + mask, message)
            for p in tables['W'][key]:
                message = p.sub(r'\g<1>', message)
    return message


def _agrees(mod, keys, tables):
    try:
        return all(_reference(mod, keys, tables, m, '***') == mod.mask_password(m, '***') for m in PROBES)
    except Exception:
        return False


def pattern_tables(mod):
    """{'2': {key: [compiled]}, '1': {...}, 'W': {...}}: the per-key compiled patterns in application order.

    First the pinned dict names.  Otherwise every module-level dict that has all sanitize keys is searched for
    (possibly nested) sequences of compiled patterns; these are mapped back to the three groups by the
    `_FORMAT_PATTERNS_*` tables (source text = format % key, which also fixes the order) or, failing that, by the
    number of groups and by probing `mask_password` with the two possible assignments.  HarnessBlind if the
    grouping cannot be recovered."""
    ck = id(mod)
    if ck in _located:
        return _located[ck]
    keys = sanitize_keys(mod)

    def ok_table(t):
        return isinstance(t, dict) and all(k in t and isinstance(t[k], (list, tuple)) and
                                           all(isinstance(p, _PATTERN_TYPE) for p in t[k]) for k in keys)
    pinned = {g: getattr(mod, n, None) for g, n in PINNED_TABLES.items()}
    if all(ok_table(t) for t in pinned.values()):
        res = {g: {k: list(t[k]) for k in keys} for g, t in pinned.items()}
        _located[ck] = res
        return res
    # discovery by shape
    per_key = {k: [] for k in keys}
    for name, d in vars(mod).items():
        if isinstance(d, dict) and all(k in d for k in keys):
            for k in keys:
                per_key[k] += [((name,) + path, pats) for path, pats in _leaf_groups(d[k])]
    if not all(per_key[k] for k in keys):
        raise _blind('no module-level container maps every sanitize key to compiled patterns')
    fmts = _format_tables(mod)
    res = {'2': {}, '1': {}, 'W': {}}
    if fmts:
        for k in keys:
            pool = [p for _, pats in per_key[k] for p in pats]
            used = set()
            for g in res:
                want = [f % {'key': k} for f in fmts[g]]
                exact = [pats for _, pats in per_key[k] if [p.pattern for p in pats] == want]
                if exact:
                    got = exact[0]
                else:
                    got = []
                    for src in want:
                        hit = [p for p in pool if p.pattern == src and id(p) not in used]
                        if not hit:
                            raise _blind('no compiled pattern for %r of key %r' % (src, k))
                        got.append(hit[0])
                used.update(id(p) for p in got)
                res[g][k] = list(got)
            extra = [p.pattern for p in pool if id(p) not in used]
            if extra:
                raise _blind('compiled patterns that are in no format table: %r' % extra[:2])
        _located[ck] = res
        return res
    # no format tables: exactly three groups per key, told apart by group count and by probing the public API
    paths = [path for path, _ in per_key[keys[0]]]
    if len(paths) != 3 or any([p for p, _ in per_key[k]] != paths for k in keys):
        raise _blind('cannot map %d pattern groups back to the three substitution steps' % len(paths))
    groups = [{k: per_key[k][i][1] for k in keys} for i in range(3)]
    one = [i for i in range(3) if all(p.groups == 1 for k in keys for p in groups[i][k])]
    if len(one) != 1:
        raise _blind('cannot tell the one-group pattern list apart')
    a, b = [i for i in range(3) if i != one[0]]
    cands = [{'2': groups[a], '1': groups[one[0]], 'W': groups[b]}, {'2': groups[b], '1': groups[one[0]], 'W': groups[a]}]
    fits = [c for c in cands if _agrees(mod, keys, c)]
    if len(fits) != 1:
        raise _blind('probing mask_password does not single out the assignment of the pattern groups')
    _located[ck] = fits[0]
    return fits[0]


def extract(mod):
    """-> dict(keys, ignorecase, lists={'2': [...], '1': [...], 'W': [...]}) of templates."""
    keys = sanitize_keys(mod)
    for k in keys:
        if not isinstance(k, str) or not k or any(ord(c) >= 128 for c in k):
            raise Untranslatable('sanitize key %r is not a non-empty ASCII str' % (k,))
    tables = pattern_tables(mod)
    result = {}
    icase = None
    for name, table in tables.items():
        tmpl = None
        for key in keys:
            if key not in table:
                raise Untranslatable('no pattern list %s for key %r' % (name, key))
            this = []
            for comp in table[key]:
                g1, mid, g2, flags = flat_pattern(comp)
                ic = bool(flags & re.IGNORECASE)
                if icase is None:
                    icase = ic
                elif icase != ic:
                    raise Untranslatable('patterns differ in IGNORECASE')
                if name in ('2', 'W') and g2 is None:
                    raise Untranslatable('pattern %r used with \\g<2> has one group' % comp.pattern)
                parts = tuple(tuple(abstract(p or [], key, ic)) for p in (g1, mid, g2))
                if not any('KEY' in p for p in parts):
                    raise Untranslatable('pattern %r does not contain its key %r' % (comp.pattern, key))
                this.append(parts)
            if tmpl is None:
                tmpl = this
            elif tmpl != this:
                raise Untranslatable('patterns of key %r are not instances of the templates of %r (list %s)'
                                     % (key, keys[0], name))
        result[name] = tmpl or []
    return {'keys': keys, 'ignorecase': bool(icase), 'lists': result}


# ---------------------------------------------------------------- cross-check of the folding rule

def crosscheck(mod, ex):
    """Every distinct item, as emitted, must agree with `re` on every character of the domain."""
    facts = interpreter_facts()
    dom = [chr(c) for c in facts['domain']] + ['é', '̇', 'Σ', 'Ω', '\U0001f600']
    seen = set()
    key = ex['keys'][0]
    tables = pattern_tables(mod)
    for name in ('2', '1', 'W'):
        for comp in tables[name][key]:
            tree = sre_parse.parse(comp.pattern, comp.flags & ~re.UNICODE)
            nodes = []
            for n in tree:
                nodes += list(n[1][3]) if n[0] is sre_c.SUBPATTERN else [n]
            for n in nodes:
                if n[0] is sre_c.MAX_REPEAT:
                    n = n[1][2][0]
                if repr(n) in seen:
                    continue
                seen.add(repr(n))
                neg, rng = _class_of(n, comp.flags)
                code = re.compile(_unparse(n), comp.flags)
                for ch in dom:
                    mine = neg != any(lo <= ord(ch) <= hi for lo, hi in rng)
                    if bool(code.fullmatch(ch)) != mine:
                        raise Untranslatable('folding rule disagrees with re on %r for item %r' % (ch, n))


def _unparse(node):
    """Regex source for a single-character node (only used by the cross-check)."""
    op, av = node

    def lit(p):
        return '\\x%02x' % p if p < 256 else '\\u%04x' % p
    if op is sre_c.LITERAL:
        return lit(av)
    if op is sre_c.NOT_LITERAL:
        return '[^%s]' % lit(av)
    if op is sre_c.ANY:
        return '.'
    parts = []
    for o, a in av:
        if o is sre_c.NEGATE:
            parts.append('^')
        elif o is sre_c.LITERAL:
            parts.append(lit(a))
        elif o is sre_c.RANGE:
            parts.append('%s-%s' % (lit(a[0]), lit(a[1])))
        elif a is sre_c.CATEGORY_SPACE:
            parts.append('\\s')
        else:
            parts.append('\\S')
    return '[%s]' % ''.join(parts)


# ---------------------------------------------------------------- Lean text

def lean_ranges(rng, symbolic_ws=True):
    """Canonical Lean text of a range list; the whitespace set stays symbolic (`wsRanges ++ [others]`)."""
    def lit(rs):
        return '[' + ', '.join('(%d, %d)' % r for r in rs) + ']'
    ws = set(interpreter_facts()['ws'])
    pts = set()
    for lo, hi in rng:
        pts.update(range(lo, hi + 1))
    if symbolic_ws and ws <= pts:
        rest = to_ranges(pts - ws)
        return 'wsRanges' if not rest else '(wsRanges ++ %s)' % lit(rest)
    return lit(rng)


def lean_item(it):
    if it == 'KEY':
        return '.key'
    neg, rng, lo, hi = it
    c = '(%s %s)' % ('ncls' if neg else 'cls', lean_ranges(rng))
    if (lo, hi) == (1, 1):
        return 'one ' + c
    if (lo, hi) == (0, None):
        return 'star ' + c
    if (lo, hi) == (1, None):
        return 'plus ' + c
    if (lo, hi) == (0, 1):
        return 'opt ' + c
    return 'rep %s %d %s' % (c, lo, 'none' if hi is None else '(some %d)' % hi)


def lean_template(t):
    return '  ⟨[' + ', '.join(lean_item(i) for i in t[0]) + '],\n   [' + \
        ', '.join(lean_item(i) for i in t[1]) + '],\n   [' + ', '.join(lean_item(i) for i in t[2]) + ']⟩'


def lean_chars(s):
    return '[' + ', '.join("'%s'" % c if (c.isalnum() or c == '_') and ord(c) < 128 else 'Char.ofNat %d' % ord(c)
                           for c in s) + ']'


def lean_text(ex):
    facts = interpreter_facts()
    lines = ['/- GENERATED by harness/gen_mask.py from the live oslo_utils.strutils -- do not edit. -/',
             'import OsloModel.FlatRegex', 'namespace Oslo.Mask.Gen', 'open Oslo.Flat', '']
    lines.append('/-- `_SANITIZE_KEYS`, in list order -/')
    lines.append('def sanitizeKeys : List (List Char) := [')
    lines.append(',\n'.join('  %s' % lean_chars(k) for k in ex['keys']))
    lines.append(']')
    lines.append('')
    lines.append('/-- the same list, readable -/')
    lines.append('def sanitizeKeyNames : List String := [' + ', '.join('"%s"' % k for k in ex['keys']) + ']')
    lines.append('')
    lines.append('/-- were the patterns compiled with re.IGNORECASE -/')
    lines.append('def ignoreCase : Bool := %s' % ('true' if ex['ignorecase'] else 'false'))
    lines.append('')
    lines.append('/-- code points matched by `\\s` (= `str.isspace`) in the running interpreter -/')
    lines.append('def wsRanges : List (Nat × Nat) := ' + lean_ranges(to_ranges(facts['ws']), False))
    lines.append('')
    lines.append('/-- lower-case ASCII letter ↦ the non-ASCII code points re.IGNORECASE equates with it -/')
    lines.append('def foldExtra : List (Nat × List Nat) := [' +
                 ', '.join('(%d, [%s])' % (k, ', '.join(map(str, v))) for k, v in facts['fold'].items()) + ']')
    lines.append('')
    lines.append('/-- `str.lower` where it is not the identity: all of ASCII, the case-fold extras, and every')
    lines.append('    character whose lower-casing contains an ASCII character -/')
    lines.append('def lowerTable : List (Nat × List Nat) := [' +
                 ', '.join('(%d, [%s])' % (c, ', '.join(map(str, lo))) for c, lo in facts['lower']) + ']')
    lines.append('')
    for name, lean_name, doc in (('2', 'patterns2', '_FORMAT_PATTERNS_2 (replacement \\g<1>SECRET\\g<2>)'),
                                 ('1', 'patterns1', '_FORMAT_PATTERNS_1 (replacement \\g<1>SECRET)'),
                                 ('W', 'patternsWildcard', '_FORMAT_PATTERNS_WILDCARD (replacement \\g<1>)')):
        lines.append('/-- %s, as compiled per key, with the key abstracted -/' % doc)
        lines.append('def %s : List Template := [' % lean_name)
        lines.append(',\n'.join(lean_template(t) for t in ex['lists'][name]))
        lines.append(']')
        lines.append('')
    lines.append('end Oslo.Mask.Gen')
    return '\n'.join(lines) + '\n'


def load_strutils():
    """The live module from common.REPO (fresh import so that a private copy is honoured)."""
    mod = importlib.import_module('oslo_utils.strutils')
    path = os.path.realpath(getattr(mod, '__file__', ''))
    if not path.startswith(os.path.realpath(common.REPO) + os.sep):
        raise Untranslatable('oslo_utils imported from %s, not from %s' % (path, common.REPO))
    return mod


def generate():
    mod = load_strutils()
    try:
        ex = extract(mod)
        crosscheck(mod, ex)
    except Untranslatable:
        raise
    common.write_if_changed(OUT, lean_text(ex))
    return ex


if __name__ == '__main__':
    ex = generate()
    print('keys:', len(ex['keys']), 'templates:', {k: len(v) for k, v in ex['lists'].items()})
