"""Run checks against a behaviour-preserving refactoring (the checks must stay quiet).

usage: harmless.py <group> <worktree> <k> --checks C01,C02

Applies <worktree>/_harmless/<k>/patch.diff in the scratch worktree, runs the test suite (must
equal the baseline), runs each check with VERIF_REPO=<worktree>, reverts, re-runs the checks on the
clean tree (restores the generated tables) and stores patch, notes and meta.json under
/verif/harmless/<group>-<k>/.
"""
import json
import os
import shutil
import sys
import time

sys.path.insert(0, os.path.dirname(os.path.abspath(__file__)))
from seedtest import sh, suite, BASE_FAILED, BASE_PASSED, VERIF   # noqa: E402


def main():
    group, wt, k = sys.argv[1], sys.argv[2], sys.argv[3]
    checks = sys.argv[sys.argv.index('--checks') + 1].split(',')
    sd = os.path.join(wt, '_harmless', str(k))
    patch = os.path.join(sd, 'patch.diff')
    res = {'group': group, 'k': k}
    sh(['git', 'checkout', '--', '.'], cwd=wt)
    rc, out = sh(['git', 'apply', '--check', patch], cwd=wt)
    if rc != 0:
        print('PATCH DOES NOT APPLY', out)
        return 1
    sh(['git', 'apply', patch], cwd=wt)
    try:
        counts, failed, out = suite(wt)
        res['suite_with_change'] = counts
        res['suite_ok'] = counts == (BASE_FAILED, BASE_PASSED)
        env = dict(os.environ, VERIF_REPO=wt)
        res['checks'] = {}
        for c in checks:
            t0 = time.time()
            rc, out = sh([os.path.join(VERIF, 'check'), c, '--tier', 'quick'], cwd=VERIF, env=env, timeout=3000)
            viol = [l for l in out.splitlines() if l.startswith('VIOLATION')]
            entry = {'exit': rc, 'violation_lines': viol, 'summary': out.splitlines()[-1:],
                     'wall_s': round(time.time() - t0, 1)}
            ev = os.path.join(VERIF, 'evidence', c + '.json')
            try:
                cov = json.load(open(ev))['coverage']
                entry['broken'] = [{k2: str(v)[:300] for k2, v in b.items()} for b in cov.get('broken', [])][:4]
                entry['infrastructure_errors'] = cov.get('infrastructure_errors', [])[:2]
            except Exception:
                pass
            res['checks'][c] = entry
    finally:
        sh(['git', 'checkout', '--', '.'], cwd=wt)
    for c in checks:
        sh([os.path.join(VERIF, 'check'), c, '--tier', 'quick'], cwd=VERIF, timeout=3000)
    res['quiet'] = {c: v['exit'] == 0 for c, v in res['checks'].items()}
    dst = os.path.join(VERIF, 'harmless', '%s-%s' % (group, k))
    os.makedirs(dst, exist_ok=True)
    for f in ('patch.diff', 'notes.md'):
        if os.path.exists(os.path.join(sd, f)):
            shutil.copy(os.path.join(sd, f), os.path.join(dst, f))
    json.dump(res, open(os.path.join(dst, 'meta.json'), 'w'), indent=1)
    print(group, k, 'suite_ok', res['suite_ok'], res['quiet'])
    for c, v in res['checks'].items():
        if v['exit'] != 0:
            print('   ', c, 'exit', v['exit'], v['violation_lines'][:2], v['summary'], json.dumps(v.get('broken'))[:600],
                  json.dumps(v.get('infrastructure_errors'))[:400])
    return 0


if __name__ == '__main__':
    sys.exit(main())
