/-
C03, the no-revision clause: a decision reported before the end of the stream is not revised by
reading further.  Proved for wrappers whose inspectors are those of the eight formats with fixed
regions (`decision_stable_static_partial`); missing: wrappers that include the VHDX or VMDK
inspector (their regions are created while streaming; for VMDK text-descriptor mode the decision
depends on the chunking — known finding KF_F1 — though no revision within one read sequence was
ever observed; see DESIGN.md).
-/
import OsloProofs.Props.C03
import OsloProofs.Lemmas.Qcow
namespace Oslo.Insp

/-- an un-finished inspector of a static format in a state the engine lemmas apply to -/
def Good (s : Insp) : Prop :=
  (s.fmt.plain = true ∧ s.finished = false ∧ ∀ p ∈ s.regions, p.2.isEnd = false) ∨ (∃ h, QShape s h)

theorem lemma_mk_noEnd : ∀ (t : List Gen.RegionSpec) (k : Nat), TableStatic t = true →
    ∀ p ∈ mkRegions t k, p.2.isEnd = false := by
  intro t
  induction t with
  | nil => intro k _ p hp; simp [mkRegions] at hp
  | cons e rest ih =>
    intro k ht p hp
    obtain ⟨n, off, len, ml, isEnd⟩ := e
    simp only [TableStatic, List.all_cons, Bool.and_eq_true, Bool.not_eq_true', Option.isNone_iff_eq_none] at ht
    obtain ⟨⟨_, hend⟩, hrest⟩ := ht
    simp only [mkRegions, List.mem_cons] at hp
    rcases hp with rfl | hp
    · exact hend
    · exact ih (k + 1) hrest p hp

theorem init_good (f : Fmt) (hf : f.static = true) (s0 : Insp) (h0 : Insp.init f = some s0) : Good s0 := by
  by_cases hq : f = .qcow2
  · subst hq
    right
    have hq := qcow_table_ok
    unfold qcowTable at hq
    split at hq
    case h_2 => simp at hq
    case h_1 off len heq =>
      split at hq
      case isFalse => simp at hq
      case isTrue hbig =>
        unfold Insp.init at h0
        split at h0
        · simp at h0
        · simp only [Option.some.injEq] at h0
          subst h0
          refine ⟨Region.fresh 0 off len none, rfl, rfl, ?_, rfl, rfl, hbig, ?_⟩
          · simp [Fmt.initRegions, heq, mkRegions, Region.fresh]
          · simp only [qinfoR, Region.fresh, Region.complete, Bool.false_eq_true, if_false, List.length_nil]
            have : ¬ (len = 0) := by omega
            simp [this]
  · left
    unfold Insp.init at h0
    split at h0
    · simp at h0
    · simp only [Option.some.injEq] at h0
      subst h0
      have hp : f.plain = true := by simp [Fmt.plain, hf, hq]
      exact ⟨hp, rfl, lemma_mk_noEnd _ 0 (plain_tables_static f hp)⟩

theorem lemma_stepRegion_complete (c : Bytes) (pos : Nat) (r : Region) (hE : r.isEnd = false)
    (hc : r.complete = true) : stepRegion c pos r = r := by
  simp [stepRegion, hE, hc]

/-- what `formats` looks at -/
def view (s : Insp) : String × Bool × Except Err Bool := (s.fmt.name, s.complete, formatMatch s)

theorem lemma_formatMatch_congr (s t : Insp) (h1 : t.fmt = s.fmt) (h2 : t.regions = s.regions)
    (h3 : t.qcowInfo = s.qcowInfo) (h4 : t.vmdkType = s.vmdkType) : formatMatch t = formatMatch s := by
  unfold formatMatch Insp.region Insp.complete
  rw [h1, h2, h3, h4]

/-- one more chunk: a Good inspector does not raise and stays Good; if it was complete, what
    `formats` sees of it does not change -/
theorem lemma_good_step (s : Insp) (c : Bytes) (hg : Good s) :
    (eatChunk s c).2 = none ∧ Good (eatChunk s c).1 ∧
    (s.complete = true → view (eatChunk s c).1 = view s) := by
  rcases hg with ⟨hp, hf, hne⟩ | ⟨h, hs⟩
  · rw [lemma_eatChunk_plain s c hp hf]
    refine ⟨rfl, Or.inl ⟨hp, hf, ?_⟩, fun hc => ?_⟩
    · intro p hp'
      simp only [afterCapture, List.mem_map] at hp'
      obtain ⟨q, hq, rfl⟩ := hp'
      exact (lemma_stepRegion_fields c _ q.2 (hne q hq)).1
    have hreg : (afterCapture s c).regions = s.regions := by
      simp only [afterCapture]
      have : ∀ p ∈ s.regions, (p.1, stepRegion c (s.total + c.length) p.2) = p := by
        intro p hp'
        have hcp : p.2.complete = true := by
          simp only [Insp.complete, List.all_eq_true] at hc
          exact hc p hp'
        rw [lemma_stepRegion_complete c _ p.2 (hne p hp') hcp]
      exact (List.map_congr_left this).trans (List.map_id' _)
    simp only [view]
    refine Prod.ext rfl (Prod.ext ?_ ?_)
    · simp only [Insp.complete, hreg]
    · exact lemma_formatMatch_congr s (afterCapture s c) rfl hreg rfl rfl
  · obtain ⟨e1, e2⟩ := lemma_qcow_step s h c hs
    rw [e1]
    refine ⟨rfl, Or.inr ⟨_, e2⟩, fun hc => ?_⟩
    have hcomp : h.complete = true := by
      have := hs.regions
      simp only [Insp.complete, this, List.all_cons, List.all_nil, Bool.and_true] at hc
      exact hc
    have hst := lemma_stepRegion_complete c (s.total + c.length) h hs.plain hcomp
    simp only [view, hst]
    refine Prod.ext rfl (Prod.ext ?_ ?_)
    · simp only [Insp.complete, hs.regions]
    · apply lemma_formatMatch_congr
      · rfl
      · exact hs.regions.symm
      · exact hs.info.symm
      · rfl

end Oslo.Insp

namespace Oslo.Insp

/-- with no expected format and nothing errored, one `_process_chunk` over Good inspectors feeds
    every one of them and returns normally -/
theorem lemma_processLoop_good (c : Bytes) : ∀ (todo acc : List Insp), (∀ i ∈ todo, Good i) →
    processLoop realOps none c todo acc [] =
      (acc.reverse ++ todo.map (fun i => (eatChunk i c).1), [], .done) := by
  intro todo
  induction todo with
  | nil => intro acc _; simp [processLoop]
  | cons i rest ih =>
    intro acc hg
    obtain ⟨hne, _, _⟩ := lemma_good_step i c (hg i (by simp))
    simp only [processLoop, List.contains_nil, Bool.false_eq_true, if_false, realOps]
    cases he : eatChunk i c with
    | mk i' e =>
      rw [he] at hne
      simp only at hne
      subst hne
      simp only [reduceCtorEq, Bool.false_and, if_false]
      have := ih (i' :: acc) (fun j hj => hg j (by simp [hj]))
      simp only [realOps] at this
      rw [this]
      simp [he]

/-- the names in a `formats` answer -/
def namesOf (r : Except Err (Option (List Insp))) : Except Err (Option (List String)) :=
  match r with
  | .error e => .error e
  | .ok none => .ok none
  | .ok (some l) => .ok (some (l.map (fun i => i.fmt.name)))

theorem lemma_view_cons {a b : Insp} {l l' : List Insp} (h : (a :: l).map view = (b :: l').map view) :
    view a = view b ∧ l.map view = l'.map view := by
  simpa using h

/-- names of the matching inspectors (or the first format_match error) -/
def mlNames (l : List Insp) : Except Err (List String) :=
  match matchList realOps l with
  | .ok r => .ok (r.map (fun i : Insp => i.fmt.name))
  | .error e => .error e

theorem lemma_mlNames_cons (a : Insp) (l : List Insp) :
    mlNames (a :: l) =
      match formatMatch a with
      | .error e => .error e
      | .ok b =>
        match mlNames l with
        | .error e => .error e
        | .ok r => .ok (if b then a.fmt.name :: r else r) := by
  simp only [mlNames, matchList]
  have hfa : realOps.fmatch a = formatMatch a := rfl
  rw [hfa]
  generalize matchList realOps l = m
  cases formatMatch a with
  | error e => rfl
  | ok b =>
    cases m with
    | error e => rfl
    | ok r => cases b <;> rfl

theorem lemma_matchList_view : ∀ (l l' : List Insp), l.map view = l'.map view → mlNames l = mlNames l' := by
  intro l
  induction l with
  | nil => intro l' h; cases l' with
    | nil => rfl
    | cons b l' => simp at h
  | cons a l ih =>
    intro l' h
    cases l' with
    | nil => simp at h
    | cons b l' =>
      obtain ⟨hv, hrest⟩ := lemma_view_cons h
      have hfm : formatMatch a = formatMatch b := congrArg (fun v => v.2.2) hv
      have hnm : a.fmt.name = b.fmt.name := congrArg (fun v => v.1) hv
      rw [lemma_mlNames_cons, lemma_mlNames_cons, hfm, hnm, ih l' hrest]

theorem lemma_filter_view (p : String → Bool) : ∀ (l l' : List Insp), l.map view = l'.map view →
    (l.filter (fun i => p i.fmt.name)).map view = (l'.filter (fun i => p i.fmt.name)).map view := by
  intro l
  induction l with
  | nil => intro l' h; cases l' with
    | nil => rfl
    | cons b l' => simp at h
  | cons a l ih =>
    intro l' h
    cases l' with
    | nil => simp at h
    | cons b l' =>
      obtain ⟨hv, hrest⟩ := lemma_view_cons h
      have hnm : a.fmt.name = b.fmt.name := congrArg (fun v => v.1) hv
      simp only [List.filter_cons, hnm]
      split
      · simp [hv, ih l' hrest]
      · exact ih l' hrest

theorem lemma_all_complete_view : ∀ (l l' : List Insp), l.map view = l'.map view →
    l.all (fun i => i.complete) = l'.all (fun i => i.complete) := by
  intro l
  induction l with
  | nil => intro l' h; cases l' with
    | nil => rfl
    | cons b l' => simp at h
  | cons a l ih =>
    intro l' h
    cases l' with
    | nil => simp at h
    | cons b l' =>
      obtain ⟨hv, hrest⟩ := lemma_view_cons h
      have hc : a.complete = b.complete := congrArg (fun v => v.2.1) hv
      simp [hc, ih l' hrest]

theorem lemma_names_view : ∀ (l l' : List Insp), l.map view = l'.map view →
    l.map (fun i => i.fmt.name) = l'.map (fun i => i.fmt.name) := by
  intro l l' h
  have := congrArg (List.map (fun v : String × Bool × Except Err Bool => v.1)) h
  simpa [List.map_map, Function.comp_def, view] using this

/-- `formats`, by names, in terms of `mlNames` -/
theorem lemma_namesOf_formats (w : Wrap Insp) :
    namesOf (w.formats realOps) =
      match mlNames (w.insps.filter (fun i => i.fmt.name != "raw")) with
      | .error e => .error e
      | .ok ms =>
        if (!(w.insps.filter (fun i => i.fmt.name != "raw")).all (fun i => i.complete) && !w.finished) then .ok none
        else if ms.isEmpty then .ok (some ((w.insps.filter (fun i => i.fmt.name == "raw")).map (fun i => i.fmt.name)))
        else .ok (some ms) := by
  unfold Wrap.formats mlNames
  have e1 : (fun i : Insp => realOps.name i != "raw") = (fun i : Insp => i.fmt.name != "raw") := rfl
  have e2 : (fun i : Insp => realOps.name i == "raw") = (fun i : Insp => i.fmt.name == "raw") := rfl
  have e3 : realOps.complete = (fun i : Insp => i.complete) := rfl
  simp only [bind, Except.bind, e1, e2, e3]
  generalize matchList realOps (w.insps.filter (fun i => i.fmt.name != "raw")) = m
  cases m with
  | error e => rfl
  | ok r =>
    simp only
    split
    · rfl
    · cases r with
      | nil => simp [namesOf, pure, Except.pure]
      | cons a r => simp [namesOf, pure, Except.pure]

/-- `formats` is a function of what it can see of each inspector -/
theorem formats_congr (w w' : Wrap Insp) (hv : w.insps.map view = w'.insps.map view)
    (hf : w.finished = w'.finished) :
    namesOf (w.formats realOps) = namesOf (w'.formats realOps) := by
  have h1 := lemma_filter_view (fun n => n != "raw") _ _ hv
  have h2 := lemma_matchList_view _ _ h1
  have h3 := lemma_all_complete_view _ _ h1
  have h4 := lemma_names_view _ _ (lemma_filter_view (fun n => n == "raw") _ _ hv)
  rw [lemma_namesOf_formats, lemma_namesOf_formats, h2, h3, h4, hf]

/-- invariant of a wrapper over inspectors of static formats -/
def WGood (w : Wrap Insp) : Prop :=
  w.expected = none ∧ w.errored = [] ∧ w.finished = false ∧
  ∀ i ∈ w.insps, Good i ∧ (i.fmt = .raw → i.complete = true)

/-- **decision_stable_static_partial** — for a wrapper over the inspectors of formats with fixed
    regions: once `formats` has answered (before EOF), reading one more chunk returns normally and
    `formats` (hence `format`) answers with exactly the same format names.  By induction this holds
    for every later read.  Missing: wrappers containing the VHDX or VMDK inspector. -/
theorem decision_stable_static_partial (w : Wrap Insp) (hw : WGood w) (l : List Insp)
    (h : w.formats realOps = .ok (some l)) (c : Bytes) :
    (w.processChunk realOps c).2 = .done ∧ WGood (w.processChunk realOps c).1 ∧
    namesOf ((w.processChunk realOps c).1.formats realOps) = .ok (some (l.map (fun i => i.fmt.name))) := by
  obtain ⟨hexp, herr, hfin, hall⟩ := hw
  have hloop := lemma_processLoop_good c w.insps [] (fun i hi => (hall i hi).1)
  have hpc : w.processChunk realOps c =
      ({ w with insps := w.insps.map (fun i => (eatChunk i c).1), errored := [] }, .done) := by
    simp only [Wrap.processChunk, hexp, herr, hloop, List.reverse_nil, List.nil_append]
  -- every inspector is complete at the decision
  have hcomplete : ∀ i ∈ w.insps, i.complete = true := by
    intro i hi
    by_cases hr : i.fmt = .raw
    · exact (hall i hi).2 hr
    · have hdec := (formats_spec realOps w l h).2.2
      rcases hdec with hdec | hdec
      · simp only [List.all_eq_true, List.mem_filter, realOps] at hdec
        apply hdec i ⟨hi, ?_⟩
        simp only [bne_iff_ne, ne_eq]
        intro hn
        apply hr
        cases hf : i.fmt <;> simp_all [Fmt.name]
      · rw [hfin] at hdec; simp at hdec
  have hviews : (w.insps.map (fun i => (eatChunk i c).1)).map view = w.insps.map view := by
    rw [List.map_map]
    apply List.map_congr_left
    intro i hi
    exact (lemma_good_step i c (hall i hi).1).2.2 (hcomplete i hi)
  rw [hpc]
  refine ⟨rfl, ⟨hexp, rfl, hfin, ?_⟩, ?_⟩
  · intro j hj
    simp only [List.mem_map] at hj
    obtain ⟨i, hi, rfl⟩ := hj
    obtain ⟨_, hg, hvw⟩ := lemma_good_step i c (hall i hi).1
    refine ⟨hg, fun _ => ?_⟩
    have := hvw (hcomplete i hi)
    have hc : (eatChunk i c).1.complete = i.complete := congrArg (fun v => v.2.1) this
    rw [hc]; exact hcomplete i hi
  · have := formats_congr { w with insps := w.insps.map (fun i => (eatChunk i c).1), errored := [] } w
      hviews rfl
    rw [this, h]
    rfl

/-- a fresh wrapper restricted to static formats satisfies the invariant -/
theorem static_wrapper_good (allowed : List String) (hne : allowed ≠ [])
    (hst : ∀ n ∈ allowed, ∀ f, Fmt.ofName? n = some f → f.static = true) :
    WGood (Wrap.mk' none allowed) := by
  refine ⟨rfl, rfl, rfl, ?_⟩
  intro i hi
  have hname := allowed_respected none allowed hne i hi
  simp only [Wrap.mk', List.mem_filterMap, List.mem_filter] at hi
  obtain ⟨f, ⟨hfa, _⟩, hinit⟩ := hi
  have hfmt : i.fmt = f := by
    unfold Insp.init at hinit
    split at hinit
    · simp at hinit
    · simp only [Option.some.injEq] at hinit; subst hinit; rfl
  have hof : Fmt.ofName? f.name = some f := by cases f <;> rfl
  have hs : f.static = true := hst f.name (by rw [← hfmt]; exact hname) f hof
  refine ⟨init_good f hs i hinit, fun hr => ?_⟩
  rw [hfmt] at hr
  subst hr
  unfold Insp.init at hinit
  split at hinit
  · simp at hinit
  · simp only [Option.some.injEq] at hinit; subst hinit; rfl

end Oslo.Insp

namespace Oslo.Insp

theorem lemma_finish_view (i : Insp) (hg : Good i) : view i.finish = view i := by
  have hreg : i.finish.regions = i.regions := by
    simp only [Insp.finish]
    have : ∀ p ∈ i.regions, (p.1, p.2.finish) = p := by
      intro p hp
      have hE : p.2.isEnd = false := by
        rcases hg with ⟨_, _, hne⟩ | ⟨h, hs⟩
        · exact hne p hp
        · rw [hs.regions] at hp
          simp only [List.mem_singleton] at hp
          subst hp
          exact hs.plain
      simp [Region.finish, hE]
    exact (List.map_congr_left this).trans (List.map_id' _)
  simp only [view]
  refine Prod.ext rfl (Prod.ext ?_ ?_)
  · simp only [Insp.complete, hreg]
  · exact lemma_formatMatch_congr i i.finish rfl hreg rfl rfl

/-- **decision_stable_close_static_partial** — `close()` (EOF) does not revise a decision either -/
theorem decision_stable_close_static_partial (w : Wrap Insp) (hw : WGood w) (l : List Insp)
    (h : w.formats realOps = .ok (some l)) :
    namesOf ((w.finish realOps).formats realOps) = .ok (some (l.map (fun i => i.fmt.name))) := by
  obtain ⟨_, _, hfin, hall⟩ := hw
  have hviews : (w.finish realOps).insps.map view = w.insps.map view := by
    simp only [Wrap.finish, List.map_map]
    apply List.map_congr_left
    intro i hi
    exact lemma_finish_view i (hall i hi).1
  have h1 := lemma_filter_view (fun n => n != "raw") _ _ hviews
  have h2 := lemma_matchList_view _ _ h1
  have h3 := lemma_all_complete_view _ _ h1
  have h4 := lemma_names_view _ _ (lemma_filter_view (fun n => n == "raw") _ _ hviews)
  have hdec := (formats_spec realOps w l h).2.2
  have hcomp : (w.insps.filter (fun i => i.fmt.name != "raw")).all (fun i => i.complete) = true := by
    rcases hdec with hdec | hdec
    · exact hdec
    · rw [hfin] at hdec; simp at hdec
  have hn : namesOf (w.formats realOps) = .ok (some (l.map (fun i => i.fmt.name))) := by rw [h]; rfl
  rw [lemma_namesOf_formats] at hn ⊢
  rw [h2, h3, h4]
  simp only [hcomp, Bool.not_true, Bool.false_and, Bool.false_eq_true, if_false] at hn ⊢
  exact hn

end Oslo.Insp
