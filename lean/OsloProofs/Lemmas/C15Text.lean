/-
Helper lemmas for C15, text half: str.split / rsplit, int() on digit strings,
the character classes accepted by the inet_pton models, the dict model.
-/
import OsloModel.HostPort
namespace Oslo.HostPort

/-! ### split / rsplit -/

theorem lemma_splitOn_no_sep (sep : Char) (a : List Char) (h : sep ∉ a) : splitOn sep a = [a] := by
  induction a with
  | nil => rfl
  | cons c a ih =>
    have hc : c ≠ sep := fun e => h (by simp [e])
    have ha : sep ∉ a := fun e => h (by simp [e])
    simp [splitOn, hc, ih ha]

theorem lemma_splitOn_append (sep : Char) (a b : List Char) (h : sep ∉ a) :
    splitOn sep (a ++ sep :: b) = a :: splitOn sep b := by
  induction a with
  | nil => simp [splitOn]
  | cons c a ih =>
    have hc : c ≠ sep := fun e => h (by simp [e])
    have ha : sep ∉ a := fun e => h (by simp [e])
    simp [splitOn, hc, ih ha]

theorem lemma_splitOn_ne_nil (sep : Char) (s : List Char) : splitOn sep s ≠ [] := by
  induction s with
  | nil => simp [splitOn]
  | cons c cs ih =>
    unfold splitOn
    split
    · simp
    · split <;> simp

/-- `sep in s` implies `s.split(sep)` has at least two parts (so `[1]` exists) -/
theorem lemma_splitOn_two (sep : Char) (s : List Char) (h : sep ∈ s) :
    ∃ a b rest, splitOn sep s = a :: b :: rest := by
  induction s with
  | nil => simp at h
  | cons c cs ih =>
    by_cases hc : c = sep
    · rcases hs : splitOn sep cs with _ | ⟨b, rest⟩
      · exact absurd hs (lemma_splitOn_ne_nil sep cs)
      · exact ⟨[], b, rest, by simp [splitOn, hc, hs]⟩
    · have hm : sep ∈ cs := by
        rcases List.mem_cons.mp h with e | e
        · exact absurd e.symm hc
        · exact e
      obtain ⟨a, b, rest, e⟩ := ih hm
      exact ⟨c :: a, b, rest, by simp [splitOn, hc, e]⟩

theorem lemma_rsplit1_none (sep : Char) (s : List Char) (h : sep ∉ s) : rsplit1 sep s = (s, none) := by
  induction s with
  | nil => rfl
  | cons c s ih =>
    have hc : c ≠ sep := fun e => h (by simp [e])
    have hs : sep ∉ s := fun e => h (by simp [e])
    simp [rsplit1, ih hs, hc]

theorem lemma_rsplit1_some (sep : Char) (a t : List Char) (h : sep ∉ t) :
    rsplit1 sep (a ++ sep :: t) = (a, some t) := by
  induction a with
  | nil => simp [rsplit1, lemma_rsplit1_none sep t h]
  | cons c a ih => simp [rsplit1, ih]

/-- what `rsplit1` returns determines the string -/
theorem lemma_rsplit1_spec (sep : Char) (s : List Char) :
    (∀ a t, rsplit1 sep s = (a, some t) → s = a ++ sep :: t ∧ sep ∉ t) ∧
    (∀ a, rsplit1 sep s = (a, none) → s = a ∧ sep ∉ s) := by
  induction s with
  | nil => simp [rsplit1]
  | cons c s ih =>
    obtain ⟨ih1, ih2⟩ := ih
    rcases hr : rsplit1 sep s with ⟨a0, _ | t0⟩
    · have ⟨e, hn⟩ := ih2 a0 hr
      subst e
      by_cases hc : c = sep
      · subst hc; simp [rsplit1, hr]; exact hn
      · simp [rsplit1, hr, hc]; exact ⟨fun e => hc e.symm, hn⟩
    · have ⟨e, hn⟩ := ih1 a0 t0 hr
      simp [rsplit1, hr]
      exact ⟨e, hn⟩

/-! ### int() on digit strings -/

/-- value of a string of decimal digits (the specification `int()` is compared with) -/
def decVal (ds : List Char) : Nat := ds.foldl (fun a c => a * 10 + (c.toNat - 48)) 0

theorem lemma_parseDigits_digits (ds : List Char) :
    ∀ (acc n : Nat) (prev : Bool), (∀ c ∈ ds, isDigit c = true) → (ds ≠ [] ∨ prev = true) →
      parseDigits ds acc n prev
        = some (ds.foldl (fun a c => a * 10 + (c.toNat - 48)) acc, n + ds.length) := by
  induction ds with
  | nil => intro acc n prev _ h; simp at h; simp [parseDigits, h]
  | cons c cs ih =>
    intro acc n prev hd _
    have hc : isDigit c = true := hd c (by simp)
    have hcs : ∀ x ∈ cs, isDigit x = true := fun x hx => hd x (by simp [hx])
    simp only [parseDigits, hc, if_true]
    rw [ih _ _ true hcs (Or.inr rfl)]
    simp; omega

theorem lemma_digit_not_space (c : Char) (h : isDigit c = true) : isAsciiSpace c = false := by
  simp [isDigit, isAsciiSpace] at *; omega

theorem lemma_dropWhile_all_false (p : Char → Bool) (l : List Char) (h : ∀ c ∈ l, p c = false) :
    l.dropWhile p = l := by
  cases l with
  | nil => rfl
  | cons c cs => simp [List.dropWhile, h c (by simp)]

theorem lemma_strip_digits (ds : List Char) (hd : ∀ c ∈ ds, isDigit c = true) : strip ds = ds := by
  have h1 : ∀ c ∈ ds, isAsciiSpace c = false := fun c hc => lemma_digit_not_space c (hd c hc)
  have h2 : ∀ c ∈ ds.reverse, isAsciiSpace c = false := fun c hc => h1 c (by simpa using hc)
  simp [strip, lemma_dropWhile_all_false _ ds h1, lemma_dropWhile_all_false _ ds.reverse h2]

/-- `int(ds)` for a non-empty string of at most 4300 ASCII digits is its decimal value -/
theorem lemma_pyInt_digits (ds : List Char) (hne : ds ≠ []) (hd : ∀ c ∈ ds, isDigit c = true)
    (hlen : ds.length ≤ maxStrDigits) : pyInt ds = .ok (decVal ds : Int) := by
  have hascii : ds.any (fun c => decide (c.toNat ≥ 128)) = false := by
    rw [List.any_eq_false]; intro c hc
    have := hd c hc; simp [isDigit] at this; simp; omega
  have hsign : signSplit ds = (false, ds) := by
    cases ds with
    | nil => exact absurd rfl hne
    | cons c cs =>
      have hc : isDigit c = true := hd c (by simp)
      have hm : c ≠ '-' := by intro e; subst e; revert hc; decide
      have hp : c ≠ '+' := by intro e; subst e; revert hc; decide
      unfold signSplit
      split
      · next h => simp at h; exact absurd h.1 hm
      · next h => simp at h; exact absurd h.1 hp
      · rfl
  unfold pyInt
  rw [hascii, lemma_strip_digits ds hd, hsign]
  simp only [Bool.false_eq_true, if_false]
  rw [lemma_parseDigits_digits ds 0 0 false hd (Or.inl hne)]
  simp only [Nat.zero_add]
  rw [if_neg (by omega)]
  rfl

/-! ### characters accepted by the inet_pton models -/

theorem lemma_pton4Loop_chars (s : List Char) :
    ∀ (saw : Bool) (octets cur : Nat), pton4Loop s saw octets cur = true →
      ∀ c ∈ s, isDigit c = true ∨ c = '.' := by
  induction s with
  | nil => intro _ _ _ _ c hc; simp at hc
  | cons ch rest ih =>
    intro saw octets cur h c hc
    unfold pton4Loop at h
    by_cases hd : isDigit ch = true
    · simp only [hd, if_true] at h
      have hrest : ∃ s' o' c', pton4Loop rest s' o' c' = true := by
        split at h
        · exact absurd h (by simp)
        · split at h
          · exact absurd h (by simp)
          · split at h
            · split at h
              · exact absurd h (by simp)
              · exact ⟨_, _, _, h⟩
            · exact ⟨_, _, _, h⟩
      obtain ⟨s', o', c', hr⟩ := hrest
      rcases List.mem_cons.mp hc with e | e
      · subst e; exact Or.inl hd
      · exact ih _ _ _ hr c e
    · simp only [hd, Bool.false_eq_true, if_false] at h
      split at h
      · next hdot =>
        simp at hdot
        split at h
        · exact absurd h (by simp)
        · rcases List.mem_cons.mp hc with e | e
          · subst e; exact Or.inr hdot.1
          · exact ih _ _ _ h c e
      · exact absurd h (by simp)

theorem lemma_pton4_chars (s : List Char) (h : pton4 s = true) :
    ∀ c ∈ s, isDigit c = true ∨ c = '.' := lemma_pton4Loop_chars s _ _ _ h

/-- the characters an accepted IPv6 text can contain -/
def okV6Char (c : Char) : Prop := isHex c = true ∨ c = ':' ∨ c = '.'

theorem lemma_pton6Loop_chars (s : List Char) :
    ∀ (ct : List Char) (tp : Nat) (colon : Option Nat) (xd : Nat) r,
      pton6Loop s ct tp colon xd = some r → (∀ c ∈ s, c ∈ ct) → ∀ c ∈ s, okV6Char c := by
  induction s with
  | nil => intro _ _ _ _ _ _ _ c hc; simp at hc
  | cons ch rest ih =>
    intro ct tp colon xd r h hsub c hc
    unfold pton6Loop at h
    have hrest_sub : ∀ x ∈ rest, x ∈ ct := fun x hx => hsub x (by simp [hx])
    by_cases hh : isHex ch = true
    · simp only [hh, if_true] at h
      split at h
      · exact absurd h (by simp)
      · rcases List.mem_cons.mp hc with e | e
        · subst e; exact Or.inl hh
        · exact ih _ _ _ _ _ h hrest_sub c e
    · simp only [hh, Bool.false_eq_true, if_false] at h
      by_cases hcol : ch = ':'
      · simp only [hcol, if_true] at h
        have hr : ∃ ct' tp' colon' xd', pton6Loop rest rest tp' colon' xd' = some r ∧ ct' = rest := by
          split at h
          · split at h
            · exact absurd h (by simp)
            · exact ⟨rest, _, _, _, h, rfl⟩
          · split at h
            · exact absurd h (by simp)
            · split at h
              · exact absurd h (by simp)
              · exact ⟨rest, _, _, _, h, rfl⟩
        obtain ⟨_, tp', colon', xd', hr, _⟩ := hr
        rcases List.mem_cons.mp hc with e | e
        · subst e; exact Or.inr (Or.inl hcol)
        · exact ih _ _ _ _ _ hr (fun x hx => hx) c e
      · simp only [hcol, if_false] at h
        split at h
        · next hdot =>
          simp at hdot
          obtain ⟨⟨hd, _⟩, h4⟩ := hdot
          have hall := lemma_pton4_chars ct h4
          rcases hall c (hsub c hc) with hd' | hd'
          · exact Or.inl (by simp [isHex, hd'])
          · exact Or.inr (Or.inr hd')
        · exact absurd h (by simp)

theorem lemma_pton6_chars (s : List Char) (h : pton6 s = true) : ∀ c ∈ s, okV6Char c := by
  unfold pton6 at h
  cases s with
  | nil => simp at h
  | cons c cs =>
    simp only at h
    by_cases hc : c = ':'
    · subst hc
      simp only [if_true] at h
      cases cs with
      | nil => simp at h
      | cons c2 cs2 =>
        by_cases hc2 : c2 = ':'
        · subst hc2
          simp only at h
          split at h
          · exact absurd h (by simp)
          · next r hr =>
            have := lemma_pton6Loop_chars _ _ _ _ _ _ hr (fun x hx => hx)
            intro x hx
            rcases List.mem_cons.mp hx with e | e
            · subst e; exact Or.inr (Or.inl rfl)
            · exact this x e
        · exfalso; revert h; split <;> simp_all
    · simp only [hc, if_false] at h
      split at h
      · exact absurd h (by simp)
      · next r hr => exact lemma_pton6Loop_chars _ _ _ _ _ _ hr (fun x hx => hx)

/-! ### every accepted IPv6 text contains a colon -/

theorem lemma_pton6Loop_no_colon (s : List Char) :
    ∀ (ct : List Char) (tp : Nat) (colon : Option Nat) (xd : Nat) tp' colon' xd',
      ':' ∉ s → pton6Loop s ct tp colon xd = some (tp', colon', xd') →
      colon' = colon ∧ (tp' = tp ∨ (tp' = tp + 4 ∧ xd' = 0)) := by
  induction s with
  | nil => intro _ _ _ _ _ _ _ _ h; simp [pton6Loop] at h; obtain ⟨rfl, rfl, rfl⟩ := h; simp
  | cons ch rest ih =>
    intro ct tp colon xd tp' colon' xd' hno h
    have hch : ch ≠ ':' := fun e => hno (by simp [e])
    have hrest : ':' ∉ rest := fun e => hno (by simp [e])
    unfold pton6Loop at h
    by_cases hh : isHex ch = true
    · simp only [hh, if_true] at h
      split at h
      · exact absurd h (by simp)
      · exact ih _ _ _ _ _ _ _ hrest h
    · simp only [hh, Bool.false_eq_true, if_false, hch] at h
      split at h
      · simp at h; obtain ⟨rfl, rfl, rfl⟩ := h; simp
      · exact absurd h (by simp)

theorem lemma_pton6_no_colon (s : List Char) (h : ':' ∉ s) : pton6 s = false := by
  cases s with
  | nil => rfl
  | cons c cs =>
    have hc : c ≠ ':' := fun e => h (by simp [e])
    unfold pton6
    simp only [hc, if_false]
    split
    · rfl
    · next tp colon xd hr =>
      obtain ⟨rfl, ht⟩ := lemma_pton6Loop_no_colon _ _ _ _ _ _ _ _ h hr
      rcases ht with rfl | ⟨rfl, rfl⟩
      · by_cases hx : xd > 0 <;> simp [hx]
      · simp

theorem lemma_rsplit1_fst_subset (sep : Char) (s : List Char) :
    ∀ c ∈ (rsplit1 sep s).1, c ∈ s := by
  intro c hc
  rcases hr : rsplit1 sep s with ⟨a, _ | t⟩
  · have := ((lemma_rsplit1_spec sep s).2 a hr).1
    rw [hr] at hc; simpa [this] using hc
  · have := ((lemma_rsplit1_spec sep s).1 a t hr).1
    rw [hr] at hc; rw [this]; simp at hc ⊢; exact Or.inl hc

/-- a string without ':' is never escaped -/
theorem lemma_isValidIPv6_no_colon (h : List Char) (hno : ':' ∉ h) : isValidIPv6 h = false := by
  unfold isValidIPv6
  by_cases he : h = []
  · simp [he]
  · simp only [he, if_false]
    have hsub := lemma_rsplit1_fst_subset '%' h
    rcases hr : rsplit1 '%' h with ⟨a, _ | t⟩
    · rw [hr] at hsub
      simp only
      exact lemma_pton6_no_colon a (fun e => hno (hsub _ e))
    · rw [hr] at hsub
      simp only
      split
      · rfl
      · exact lemma_pton6_no_colon a (fun e => hno (hsub _ e))

/-! ### an accepted IPv6 text never has exactly one colon -/

theorem lemma_count_one_split (c : Char) (l : List Char) (h : l.count c = 1) :
    ∃ x y, l = x ++ c :: y ∧ c ∉ x ∧ c ∉ y := by
  induction l with
  | nil => simp at h
  | cons a l ih =>
    by_cases ha : a = c
    · subst ha
      rw [List.count_cons_self] at h
      have h0 : l.count a = 0 := by omega
      exact ⟨[], l, rfl, by simp, List.count_eq_zero.mp h0⟩
    · have hne : (a == c) = false := by simpa using ha
      rw [List.count_cons, hne] at h
      obtain ⟨x, y, e, hx, hy⟩ := ih (by simpa using h)
      refine ⟨a :: x, y, by simp [e], ?_, hy⟩
      intro hm; rcases List.mem_cons.mp hm with e' | e'
      · exact ha e'.symm
      · exact hx e'

/-- reading a colon-free prefix of hex digits only advances the digit count -/
theorem lemma_pton6Loop_hex_prefix (x y : List Char) :
    ∀ (ct : List Char) (tp : Nat) (colon : Option Nat) (xd : Nat) r, ':' ∉ x →
      (∀ c ∈ x ++ ':' :: y, c ∈ ct) → pton6Loop (x ++ ':' :: y) ct tp colon xd = some r →
      pton6Loop (':' :: y) ct tp colon (xd + x.length) = some r := by
  induction x with
  | nil => intro ct tp colon xd r _ _ h; simpa using h
  | cons ch xs ih =>
    intro ct tp colon xd r hno hsub h
    have hch : ch ≠ ':' := fun e => hno (by simp [e])
    have hxs : ':' ∉ xs := fun e => hno (by simp [e])
    have hsub' : ∀ c ∈ xs ++ ':' :: y, c ∈ ct := fun c hc => hsub c (by simp at hc ⊢; exact Or.inr hc)
    rw [List.cons_append] at h
    unfold pton6Loop at h
    by_cases hh : isHex ch = true
    · simp only [hh, if_true] at h
      split at h
      · exact absurd h (by simp)
      · have := ih ct tp colon (xd + 1) r hxs hsub' h
        rw [List.length_cons]
        rw [show xd + (xs.length + 1) = xd + 1 + xs.length by omega]
        exact this
    · simp only [hh, Bool.false_eq_true, if_false, hch] at h
      split at h
      · next hdot =>
        simp at hdot
        have hall := lemma_pton4_chars ct hdot.2
        have hm : ':' ∈ ct := hsub ':' (by simp)
        rcases hall _ hm with hd | hd
        · exact absurd hd (by decide)
        · exact absurd hd (by decide)
      · exact absurd h (by simp)

theorem lemma_pton6_count_ne_one (s : List Char) (h : pton6 s = true) : s.count ':' ≠ 1 := by
  intro hc
  obtain ⟨x, y, e, hx, hy⟩ := lemma_count_one_split ':' s hc
  subst e
  cases x with
  | nil =>
    -- a leading ':' must be followed by another one
    simp only [List.nil_append] at h
    unfold pton6 at h
    simp only [if_true] at h
    cases y with
    | nil => simp at h
    | cons c2 y2 =>
      have : c2 ≠ ':' := fun e => hy (by simp [e])
      revert h; split <;> simp_all
  | cons c xs =>
    have hcne : c ≠ ':' := fun e => hx (by simp [e])
    unfold pton6 at h
    simp only [List.cons_append, hcne, if_false] at h
    split at h
    · exact absurd h (by simp)
    · next tp colon xd hr =>
      have hr' := lemma_pton6Loop_hex_prefix (c :: xs) y (c :: (xs ++ ':' :: y)) 0 none 0 _ hx
        (fun _ hm => by simpa using hm) (by simpa using hr)
      -- now at the single colon with at least one digit seen
      unfold pton6Loop at hr'
      have hcolon : isHex ':' = false := by decide
      simp only [hcolon, Bool.false_eq_true, if_false, if_true, List.length_cons] at hr'
      rw [if_neg (by omega)] at hr'
      split at hr'
      · exact absurd hr' (by simp)
      · split at hr'
        · exact absurd hr' (by simp)
        · obtain ⟨rfl, ht⟩ := lemma_pton6Loop_no_colon _ _ _ _ _ _ _ _ hy hr'
          rcases ht with rfl | ⟨rfl, rfl⟩
          · by_cases hxd : xd > 0 <;> simp [hxd] at h
          · simp at h

/-! ### the dict model -/

theorem lemma_dictGet_dictSet {β} (d : List (List Char × β)) (k k' : List Char) (v : β) :
    dictGet (dictSet d k' v) k = if k' = k then some v else dictGet d k := by
  induction d with
  | nil => simp [dictSet, dictGet]
  | cons e d ih =>
    obtain ⟨k0, v0⟩ := e
    by_cases h0 : k0 = k'
    · subst h0
      by_cases h1 : k0 = k <;> simp [dictSet, dictGet, h1]
    · by_cases h1 : k0 = k
      · subst h1
        have : ¬ k' = k0 := fun e => h0 e.symm
        simp [dictSet, dictGet, h0, this]
      · simp [dictSet, dictGet, h0, h1, ih]

theorem lemma_dictSet_keys {β} (d : List (List Char × β)) (k : List Char) (v : β) :
    (dictSet d k v).map Prod.fst
      = if k ∈ d.map Prod.fst then d.map Prod.fst else d.map Prod.fst ++ [k] := by
  induction d with
  | nil => simp [dictSet]
  | cons e d ih =>
    obtain ⟨k0, v0⟩ := e
    by_cases h0 : k0 = k
    · subst h0; simp [dictSet]
    · have : ¬ k = k0 := fun e => h0 e.symm
      simp only [dictSet, h0, if_false, List.map_cons, ih, List.mem_cons, this, false_or]
      split <;> simp

theorem lemma_dictSet_nodup {β} (d : List (List Char × β)) (k : List Char) (v : β)
    (h : (d.map Prod.fst).Nodup) : ((dictSet d k v).map Prod.fst).Nodup := by
  rw [lemma_dictSet_keys]
  split
  · exact h
  · next hk =>
    rw [List.nodup_append]
    refine ⟨h, by simp, ?_⟩
    intro a ha b hb
    simp at hb; subst hb
    exact fun e => hk (e ▸ ha)

theorem lemma_getLast?_cons_or {α} (v : α) (l : List α) :
    (v :: l).getLast? = l.getLast?.or (some v) := by
  cases l with
  | nil => rfl
  | cons x l =>
    rw [List.getLast?_cons_cons]
    cases h : (x :: l).getLast? with
    | none => simp at h
    | some y => rfl

/-- values a dict entry stands for -/
def valsOf : Option PVal → List (List Char)
  | none => []
  | some (.one v) => [v]
  | some (.many vs) => vs

/-- the dict entry `params(collapse=False)` uses for a list of values -/
def ofVals : List (List Char) → Option PVal
  | [] => none
  | [v] => some (.one v)
  | vs => some (.many vs)

theorem lemma_allStep_vals (d : List (List Char × PVal)) (kv : List Char × List Char)
    (k : List Char) :
    valsOf (dictGet (allStep d kv) k)
      = valsOf (dictGet d k) ++ (if kv.1 = k then [kv.2] else []) := by
  unfold allStep
  by_cases hk : kv.1 = k
  · subst hk
    rcases hg : dictGet d kv.1 with _ | (x | vs) <;> simp [lemma_dictGet_dictSet, valsOf]
  · rcases hg : dictGet d kv.1 with _ | (x | vs) <;> simp [lemma_dictGet_dictSet, hk]

/-- a list value always has at least two elements -/
def Canon (d : List (List Char × PVal)) : Prop :=
  ∀ k vs, dictGet d k = some (.many vs) → 2 ≤ vs.length

theorem lemma_allStep_canon (d : List (List Char × PVal)) (kv : List Char × List Char)
    (h : Canon d) : Canon (allStep d kv) := by
  intro k vs hg
  unfold allStep at hg
  by_cases hk : kv.1 = k
  · subst hk
    rcases hd : dictGet d kv.1 with _ | (x | vs0)
    · simp [hd, lemma_dictGet_dictSet] at hg
    · simp [hd, lemma_dictGet_dictSet] at hg; subst hg; simp
    · simp [hd, lemma_dictGet_dictSet] at hg; subst hg
      have := h _ _ hd; simp; omega
  · rcases hd : dictGet d kv.1 with _ | (x | vs0) <;>
      (simp [hd, lemma_dictGet_dictSet, hk] at hg; exact h _ _ hg)

theorem lemma_ofVals_valsOf (o : Option PVal) (h : ∀ vs, o = some (.many vs) → 2 ≤ vs.length) :
    o = ofVals (valsOf o) := by
  rcases o with _ | (x | vs)
  · rfl
  · rfl
  · have := h vs rfl
    match vs, this with
    | a :: b :: rest, _ => rfl

theorem lemma_foldl_allStep (qsl : List (List Char × List Char)) :
    ∀ (d : List (List Char × PVal)) (k : List Char), Canon d →
      Canon (qsl.foldl allStep d) ∧
      valsOf (dictGet (qsl.foldl allStep d) k)
        = valsOf (dictGet d k) ++ (qsl.filter (fun kv => kv.1 = k)).map Prod.snd := by
  induction qsl with
  | nil => intro d k h; simp [h]
  | cons kv rest ih =>
    intro d k h
    have ⟨c, e⟩ := ih (allStep d kv) k (lemma_allStep_canon d kv h)
    refine ⟨c, ?_⟩
    simp only [List.foldl_cons, e, lemma_allStep_vals]
    by_cases hk : kv.1 = k <;> simp [hk]

theorem lemma_allStep_nodup (d : List (List Char × PVal)) (kv : List Char × List Char)
    (h : (d.map Prod.fst).Nodup) : ((allStep d kv).map Prod.fst).Nodup := by
  unfold allStep
  rcases dictGet d kv.1 with _ | (x | vs) <;> exact lemma_dictSet_nodup _ _ _ h

theorem lemma_foldl_collapse (qsl : List (List Char × List Char)) :
    ∀ (d : List (List Char × List Char)) (k : List Char),
      dictGet (qsl.foldl (fun d kv => dictSet d kv.1 kv.2) d) k
        = (((qsl.filter (fun kv => kv.1 = k)).map Prod.snd).getLast?).or (dictGet d k) := by
  induction qsl with
  | nil => intro d k; simp
  | cons kv rest ih =>
    intro d k
    simp only [List.foldl_cons, ih, lemma_dictGet_dictSet]
    by_cases hk : kv.1 = k
    · simp only [hk, if_true, List.filter_cons, decide_true, List.map_cons,
        lemma_getLast?_cons_or]
      cases ((rest.filter (fun kv => kv.1 = k)).map Prod.snd).getLast? <;> simp
    · simp [hk]

theorem lemma_dictGet_map_one (d : List (List Char × List Char)) (k : List Char) :
    dictGet (d.map (fun kv => (kv.1, PVal.one kv.2))) k = (dictGet d k).map PVal.one := by
  induction d with
  | nil => rfl
  | cons e d ih => by_cases h : e.1 = k <;> simp [dictGet, h, ih]

end Oslo.HostPort
