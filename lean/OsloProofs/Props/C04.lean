/-
C04 — mask_password hides every supported secret and changes nothing else.
(work in progress: table obligations first)
-/
import OsloModel.Mask
namespace Oslo.Mask
open Oslo.Flat

/-- the 35 keys named by the property (strutils.py:69-79 at the pinned commit) -/
def specKeys : List String :=
  ["adminpass", "admin_pass", "password", "admin_password", "auth_token", "new_pass", "auth_password",
   "secret_uuid", "secret", "sys_pswd", "token", "configdrive", "chappassword", "encrypted_key",
   "private_key", "fernetkey", "sslkey", "passphrase", "cephclusterfsid", "octaviaheartbeatkey",
   "rabbitcookie", "cephmanilaclientkey", "pacemakerremoteauthkey", "designaterndckey", "cephadminkey",
   "heatauthencryptionkey", "cephclientkey", "keystonecredential", "barbicansimplecryptokek", "cephrgwkey",
   "swifthashsuffix", "migrationsshkey", "cephmdskey", "cephmonkey", "chapsecret"]

theorem sanitize_keys_cover_spec : ∀ k ∈ specKeys, k ∈ Gen.sanitizeKeyNames := by decide

end Oslo.Mask
