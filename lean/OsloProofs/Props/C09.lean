/-
C09 — exception-handling helpers never lose, replace or invent an exception.

Property theorems over the model `OsloModel/Exc.lean`.  Every theorem quantifies over all
handler bodies `body : Body` (the ones that need it by induction on the program), all contexts,
all interpreter states (heap of exception objects with their classes and tracebacks, handled
exception stack, log, path) and all exception ids.  Helper lemmas are `lemma_…`.
-/
import OsloModel.Exc
namespace Oslo.Exc

/-! ### helper lemmas: what the primitives leave alone -/

theorem lemma_capture_nocheck (c : Sre) (s : St) : capture false c s = (s, enter c s, .ok) := by
  unfold enter capture; cases s.active <;> simp

theorem lemma_enter_active (fl : Bool) (s : St) (a : ExcId) (h : s.active = some a) :
    enter (Sre.init fl) s = ⟨fl, some (s.heap.cls a), some a, s.heap.tb a, .scenario⟩ := by
  simp [enter, capture, h, Sre.init]

theorem lemma_enter_active_any (c : Sre) (s : St) (a : ExcId) (h : s.active = some a) :
    enter c s = { c with type_ := some (s.heap.cls a), value := some a, tb := s.heap.tb a } := by
  simp [enter, capture, h]

theorem lemma_enter_reraise_any (c : Sre) (s : St) : (enter c s).reraise = c.reraise := by
  unfold enter capture; cases s.active <;> simp

theorem lemma_enter_sink (c : Sre) (s : St) : (enter c s).sink = c.sink := by
  unfold enter capture; cases s.active <;> simp

theorem lemma_force_sink (c : Sre) (s : St) : (force c s).2.1.sink = c.sink := by
  obtain ⟨rr, ty, v, tb, sk⟩ := c
  cases v <;> cases ty <;> simp [force, raiseSaved, St.raiseFresh]
  split <;> simp [raiseSaved]

theorem lemma_exitCtx_sink (c : Sre) (s : St) (o : Compl) : (exitCtx c s o).sink = c.sink := by
  cases o with
  | raised e => rfl
  | ok => simp only [exitCtx]; split
          · exact lemma_force_sink c s
          · rfl

theorem lemma_enter_reraise (fl : Bool) (s : St) : (enter (Sre.init fl) s).reraise = fl := by
  unfold enter capture; cases s.active <;> simp [Sre.init]

theorem lemma_mkFilter (form : FilterForm) (p : Pred) : (mkFilter form p).shouldIgnore = p.eval := by
  cases form <;> rfl

theorem lemma_mkFilter_eq (form : FilterForm) (p : Pred) : mkFilter form p = ⟨p.eval⟩ := by
  cases form <;> rfl

theorem lemma_force_excInfo (c : Sre) (s : St) : (force c s).1.excInfo = s.excInfo := by
  obtain ⟨rr, ty, v, tb, sk⟩ := c
  cases v <;> cases ty <;> simp [force, raiseSaved, St.raiseFresh]
  split <;> simp

theorem lemma_exitSre_excInfo (f : Frame) (c : Sre) (s : St) (o : Compl) :
    (exitSre f c s o).1.excInfo = s.excInfo := by
  cases o with
  | raised e => simp only [exitSre]; split <;> rfl
  | ok =>
    simp only [exitSre]; split
    · have := lemma_force_excInfo c s
      simpa [St.through] using this
    · rfl

theorem lemma_filterExit_excInfo (fl : Filter) (s : St) (o : Compl) :
    (filterExit fl s o).1.excInfo = s.excInfo := by
  cases o with
  | ok => rfl
  | raised e =>
    simp only [filterExit, callPred]
    cases fl.shouldIgnore e <;> simp [St.through]

theorem lemma_filterCall_excInfo (fl : Filter) (e : ExcId) (s : St) :
    (filterCall fl e s).1.excInfo = s.excInfo := by
  simp only [filterCall, callPred]
  cases fl.shouldIgnore e <;> simp [St.through]
  split <;> rfl

theorem lemma_cmExit_excInfo (v : ExcId) (t : Tb) (x : ExcId) (s : St) :
    (cmExit v t x s).1.excInfo = s.excInfo := by
  simp only [cmExit]; split <;> rfl

theorem lemma_rpoeExit_excInfo (rm : RemoveFn) (e : ExcId) (s : St) :
    (rpoeExit rm e s).1.excInfo = s.excInfo := by
  simp only [rpoeExit]
  split
  · split
    · rw [lemma_cmExit_excInfo]; rfl
    · rfl
  · rw [lemma_cmExit_excInfo]; rfl

/-- **The handled-exception stack is restored** by every body, however it ends
    (so `sys.exc_info()` after any handler program is what it was before). -/
theorem exec_excInfo_restored (b : Body) (c : Sre) (s : St) : (exec b c s).st.excInfo = s.excInfo := by
  induction b generalizing c s with
  | nop => rfl
  | raiseCatch e => rfl
  | raiseNew e => rfl
  | setReraise b => rfl
  | nest fl body ih =>
    simp only [exec]
    rw [lemma_exitSre_excInfo]; exact ih _ _
  | forceReraise caught =>
    simp only [exec]
    exact lemma_force_excInfo c s
  | capture =>
    simp only [exec, Oslo.Exc.capture]
    cases h : s.active <;> simp [St.raiseFresh, St.through]
  | seq a b iha ihb =>
    simp only [exec]
    split
    · rw [ihb, iha]
    · exact iha _ _
  | handle e h ih => rfl
  | filterCtx bound p body ih =>
    simp only [exec]
    rw [lemma_filterExit_excInfo]; exact ih _ _
  | filterCall bound p e =>
    simp only [exec]
    exact lemma_filterCall_excInfo _ _ _
  | rpoe rm body ih =>
    simp only [exec]
    split
    · exact ih _ _
    · simp only []
      rw [lemma_rpoeExit_excInfo]; exact ih _ _
  | rwc x => rfl
  | nestThen fl body late ihb ihl =>
    simp only [exec]
    split
    · simp only []
      rw [ihl, lemma_exitSre_excInfo]; exact ihb _ _
    · simp only []
      rw [lemma_exitSre_excInfo]; exact ihb _ _
  | handleNestThen e fl body late ihb ihl =>
    simp only [exec]
    split
    · simp only []
      rw [ihl]
    · rfl
  | enterCur body ih =>
    simp only [exec]
    rw [lemma_exitSre_excInfo]; exact ih _ _
  | swallow body ih =>
    simp only [exec]
    split
    · exact ih _ _
    · exact ih _ _

/-- **A context keeps its logger**: no program changes which logger object a context reports to. -/
theorem exec_logger_kept (b : Body) (c : Sre) (s : St) : (exec b c s).ctx.sink = c.sink := by
  induction b generalizing c s with
  | nop => rfl
  | raiseCatch e => rfl
  | raiseNew e => rfl
  | setReraise b => rfl
  | nest fl body ih => simp [exec]
  | forceReraise caught => simp only [exec]; exact lemma_force_sink c s
  | capture =>
    simp only [exec, Oslo.Exc.capture]
    cases h : s.active <;> simp [St.raiseFresh]
  | seq a b iha ihb =>
    simp only [exec]
    split
    · rw [ihb, iha]
    · exact iha _ _
  | handle e h ih => simp only [exec]; exact ih _ _
  | filterCtx form p body ih => simp only [exec]; exact ih _ _
  | filterCall form p e => simp [exec]
  | rpoe rm body ih =>
    simp only [exec]
    split
    · exact ih _ _
    · exact ih _ _
  | rwc x => simp [exec]
  | nestThen fl body late _ _ => simp only [exec]; split <;> simp
  | handleNestThen e fl body late _ _ => simp only [exec]; split <;> simp
  | enterCur body ih =>
    simp only [exec]
    rw [lemma_exitCtx_sink, ih, lemma_enter_sink]
  | swallow body ih =>
    simp only [exec]
    split
    · exact ih _ _
    · exact ih _ _

/-! ### the saved triple -/

/-- **Saved-exception invariant.**  No body operation other than a direct `capture` /
    `force_reraise` on this context changes what the context has saved (type, value, traceback) —
    whatever the body raises, catches, nests, filters or removes, and however it ends. -/
theorem sre_saved_invariant (b : Body) (c : Sre) (s : St) (h : b.direct = false) :
    (exec b c s).ctx.type_ = c.type_ ∧ (exec b c s).ctx.value = c.value ∧
    (exec b c s).ctx.tb = c.tb := by
  induction b generalizing c s with
  | nop => simp [exec]
  | raiseCatch e => simp [exec]
  | raiseNew e => simp [exec]
  | setReraise b => simp [exec]
  | nest fl body ih => simp [exec]
  | forceReraise caught => simp [Body.direct] at h
  | capture => simp [Body.direct] at h
  | seq a b iha ihb =>
    simp only [Body.direct, Bool.or_eq_false_iff] at h
    simp only [exec]
    split
    · have h1 := iha c s h.1
      have h2 := ihb (exec a c s).ctx (exec a c s).st h.2
      exact ⟨h2.1.trans h1.1, h2.2.1.trans h1.2.1, h2.2.2.trans h1.2.2⟩
    · exact iha c s h.1
  | handle e hd ih =>
    simp only [Body.direct] at h
    simp only [exec]
    exact ih _ _ h
  | filterCtx bound p body ih =>
    simp only [Body.direct] at h
    simp only [exec]
    exact ih _ _ h
  | filterCall bound p e => simp [exec]
  | rpoe rm body ih =>
    simp only [Body.direct] at h
    simp only [exec]
    split
    · exact ih _ _ h
    · exact ih _ _ h
  | rwc x => simp [exec]
  | nestThen fl body late _ _ => simp only [exec]; split <;> simp
  | handleNestThen e fl body late _ _ => simp only [exec]; split <;> simp
  | enterCur body _ => simp [Body.direct] at h
  | swallow body ih =>
    simp only [Body.direct] at h
    simp only [exec]
    split
    · exact ih _ _ h
    · exact ih _ _ h

/-- a nested context never touches the enclosing one -/
theorem sre_nest_leaves_outer (fl : Bool) (body : Body) (c : Sre) (s : St) :
    (exec (.nest fl body) c s).ctx = c := by
  simp [exec]

/-! ### `__exit__` -/

/-- **`__exit__` re-raises what is saved.**  Normal exit with the flag on and a saved value `v`:
    `v` itself comes out, its traceback is the *saved* traceback under the three frames
    force_reraise / __exit__ / the frame of the `with`; nothing is logged, no object is created,
    no other traceback changes. -/
theorem sre_exit_reraises_saved (f : Frame) (c : Sre) (s : St) (v : ExcId)
    (hfl : c.reraise = true) (hv : c.value = some v) :
    (exitSre f c s .ok).2 = .raised v ∧
    (exitSre f c s .ok).1.heap.tb v = [f, .sreExit, .sreForce] ++ c.tb ∧
    (∀ i, i ≠ v → (exitSre f c s .ok).1.heap.tb i = s.heap.tb i) ∧
    (exitSre f c s .ok).1.log = s.log ∧ (exitSre f c s .ok).1.path = s.path ∧
    (exitSre f c s .ok).1.heap.next = s.heap.next ∧
    (exitSre f c s .ok).1.heap.cls = s.heap.cls := by
  obtain ⟨rr, ty, val, tb, sk⟩ := c
  simp only at hfl hv
  subst hfl hv
  refine ⟨?_, ?_, ?_, ?_, ?_, ?_, ?_⟩
  · simp [exitSre, force, raiseSaved]
  · by_cases h : s.heap.tb v = tb <;> simp [exitSre, force, raiseSaved, St.through, Heap.through, Heap.setTb, h]
  · intro i hi
    by_cases h : s.heap.tb v = tb <;>
      simp [exitSre, force, raiseSaved, St.through, Heap.through, Heap.setTb, h, hi]
  · simp [exitSre, force, raiseSaved, St.through]
  · simp [exitSre, force, raiseSaved, St.through]
  · by_cases h : s.heap.tb v = tb <;> simp [exitSre, force, raiseSaved, St.through, Heap.through, Heap.setTb, h]
  · by_cases h : s.heap.tb v = tb <;> simp [exitSre, force, raiseSaved, St.through, Heap.through, Heap.setTb, h]

/-- **sre_reraises_same.**  For every body that completes with the flag on at exit and contains no
    direct `force_reraise`/`capture`: the `with save_and_reraise_exception()` statement raises the
    exception `e₀` that was being handled on entry — the same object — and its traceback is the one it
    had on entry (its own) under the frames force_reraise, `__exit__`, scenario; this holds even if the
    body re-raised `e₀` itself and so changed its traceback in between.  Nothing is logged, no object is
    created, the enclosing context is untouched. -/
theorem sre_reraises_same (fl : Bool) (body : Body) (c : Sre) (s : St) (e₀ : ExcId)
    (hact : s.active = some e₀) (hd : body.direct = false)
    (hok : (exec body (enter (Sre.init fl) s) s).out = .ok)
    (hfl : (exec body (enter (Sre.init fl) s) s).ctx.reraise = true) :
    (exec (.nest fl body) c s).out = .raised e₀ ∧
    (exec (.nest fl body) c s).st.heap.tb e₀ = [.scen, .sreExit, .sreForce] ++ s.heap.tb e₀ ∧
    (∀ i, i ≠ e₀ → (exec (.nest fl body) c s).st.heap.tb i =
        (exec body (enter (Sre.init fl) s) s).st.heap.tb i) ∧
    (exec (.nest fl body) c s).st.log = (exec body (enter (Sre.init fl) s) s).st.log ∧
    (exec (.nest fl body) c s).st.path = (exec body (enter (Sre.init fl) s) s).st.path ∧
    (exec (.nest fl body) c s).st.heap.next = (exec body (enter (Sre.init fl) s) s).st.heap.next ∧
    (exec (.nest fl body) c s).ctx = c := by
  have inv := sre_saved_invariant body (enter (Sre.init fl) s) s hd
  rw [lemma_enter_active fl s e₀ hact] at inv hok hfl
  simp only at inv
  have key := sre_exit_reraises_saved .scen _ (exec body ⟨fl, some (s.heap.cls e₀), some e₀, s.heap.tb e₀, .scenario⟩ s).st
    e₀ hfl inv.2.1
  rw [inv.2.2] at key
  simp only [exec, lemma_enter_active fl s e₀ hact, hok]
  exact ⟨key.1, key.2.1, key.2.2.1, key.2.2.2.1, key.2.2.2.2.1, key.2.2.2.2.2.1, trivial⟩

/-- **sre_flag_off_silent.**  For every body that completes with the flag off at exit, the `with`
    statement raises nothing, logs nothing and changes nothing (no hypothesis on what the body did). -/
theorem sre_flag_off_silent (fl : Bool) (body : Body) (c : Sre) (s : St)
    (hok : (exec body (enter (Sre.init fl) s) s).out = .ok)
    (hfl : (exec body (enter (Sre.init fl) s) s).ctx.reraise = false) :
    exec (.nest fl body) c s = ⟨(exec body (enter (Sre.init fl) s) s).st, c, .ok⟩ := by
  simp [exec, exitSre, hok, hfl]

/-- **sre_body_raise_propagates.**  For every body that raises `e'`: `e'` comes out of the `with`
    statement, the heap (every traceback, `e'`'s included) is exactly as the body left it, and the
    saved exception is logged once if the flag is on at that moment and not at all otherwise. -/
theorem sre_body_raise_propagates (fl : Bool) (body : Body) (c : Sre) (s : St) (e' : ExcId)
    (hr : (exec body (enter (Sre.init fl) s) s).out = .raised e') :
    (exec (.nest fl body) c s).out = .raised e' ∧
    (exec (.nest fl body) c s).st.heap = (exec body (enter (Sre.init fl) s) s).st.heap ∧
    (exec (.nest fl body) c s).st.path = (exec body (enter (Sre.init fl) s) s).st.path ∧
    (exec (.nest fl body) c s).ctx = c ∧
    (exec (.nest fl body) c s).st.log = (exec body (enter (Sre.init fl) s) s).st.log ++
      (if (exec body (enter (Sre.init fl) s) s).ctx.reraise
       then [⟨(exec body (enter (Sre.init fl) s) s).ctx.value, (exec body (enter (Sre.init fl) s) s).ctx.tb,
              (exec body (enter (Sre.init fl) s) s).ctx.sink⟩]
       else []) := by
  simp only [exec, exitSre, hr]
  cases (exec body (enter (Sre.init fl) s) s).ctx.reraise <;> simp

/-- … and, without direct `force_reraise`/`capture` in the body, what is logged is the original:
    the exception handled on entry with the traceback it had then. -/
theorem sre_body_raise_logs_original (fl : Bool) (body : Body) (c : Sre) (s : St) (e₀ e' : ExcId)
    (hact : s.active = some e₀) (hd : body.direct = false)
    (hr : (exec body (enter (Sre.init fl) s) s).out = .raised e') :
    (exec (.nest fl body) c s).st.log = (exec body (enter (Sre.init fl) s) s).st.log ++
      (if (exec body (enter (Sre.init fl) s) s).ctx.reraise then [⟨some e₀, s.heap.tb e₀, .scenario⟩] else []) := by
  have inv := sre_saved_invariant body (enter (Sre.init fl) s) s hd
  rw [(sre_body_raise_propagates fl body c s e' hr).2.2.2.2, inv.2.1, inv.2.2, exec_logger_kept,
      lemma_enter_active fl s e₀ hact]

/-! ### capture / force_reraise called directly -/

/-- **sre_capture_retargets.**  `capture()` while `a` is being handled makes the context save `a`
    with `a`'s traceback of that moment (whatever it had saved before) … -/
theorem sre_capture_retargets (c : Sre) (s : St) (a : ExcId) (hact : s.active = some a) :
    exec .capture c s =
      ⟨s, { c with type_ := some (s.heap.cls a), value := some a, tb := s.heap.tb a }, .ok⟩ := by
  simp [exec, capture, hact]

/-- … so that a later normal exit with the flag on re-raises `a` with that traceback. -/
theorem sre_capture_then_exit (c : Sre) (s s' : St) (a : ExcId) (f : Frame)
    (hact : s.active = some a) (hfl : c.reraise = true) :
    (exitSre f (exec .capture c s).ctx s' .ok).2 = .raised a ∧
    (exitSre f (exec .capture c s).ctx s' .ok).1.heap.tb a = [f, .sreExit, .sreForce] ++ s.heap.tb a := by
  rw [sre_capture_retargets c s a hact]
  have := sre_exit_reraises_saved f
    { c with type_ := some (s.heap.cls a), value := some a, tb := s.heap.tb a } s' a hfl rfl
  exact ⟨this.1, this.2.1⟩

/-- `capture()` with nothing being handled raises a new RuntimeError and saves nothing -/
theorem sre_capture_nothing_active (c : Sre) (s : St) (hact : s.active = none) :
    (exec .capture c s).out = .raised s.heap.next ∧ (exec .capture c s).ctx = c ∧
    (exec .capture c s).st.heap.cls s.heap.next = .runtimeError ∧
    (exec .capture c s).st.heap.tb s.heap.next = [.scen, .sreCapture] := by
  simp [exec, capture, hact, St.raiseFresh, Heap.alloc, St.through, Heap.through, Heap.setTb]

/-- the first `force_reraise()` after a capture raises the saved exception with the saved traceback -/
theorem sre_force_raises_saved (caught : Bool) (c : Sre) (s : St) (v : ExcId) (hv : c.value = some v) :
    (exec (.forceReraise false) c s).out = .raised v ∧
    (exec (.forceReraise caught) c s).st.heap.tb v = [.scen, .sreForce] ++ c.tb ∧
    (exec (.forceReraise caught) c s).ctx.value = none ∧
    (exec (.forceReraise caught) c s).ctx.type_ = c.type_ := by
  obtain ⟨rr, ty, val, tb, sk⟩ := c
  simp only at hv
  subst hv
  simp only [exec, force, raiseSaved]
  by_cases h : s.heap.tb v = tb <;> simp [St.through, Heap.through, Heap.setTb, h]

/-- **Finding N1, proved.**  `try: raise E0 / except: with save_and_reraise_exception() as c:
    try: c.force_reraise() / except: pass` — the body completes with the flag on, and what comes out is
    *not* `E0` (id 0) but a new object (id 1) of `E0`'s class with no traceback of `E0`'s; when the class
    needs constructor arguments it is a new TypeError. -/
def n1State (needsArgs : Bool) : St :=
  ⟨⟨fun _ => .user 0 needsArgs true, fun _ => [], fun _ => none, fun _ => false, 1⟩, [], [], .file⟩

def n1Body : Body := .handle 0 (.nest true (.forceReraise true))

theorem sre_force_then_exit_invents :
    (run true n1Body (n1State false)).out = .raised 1 ∧
    (run true n1Body (n1State false)).st.heap.cls 1 = .user 0 false true ∧
    (run true n1Body (n1State false)).st.heap.tb 1 = [.scen, .sreExit, .sreForce] ∧
    (run true n1Body (n1State false)).st.heap.tb 0 = [.scen, .sreForce, .scen] ∧
    (run true n1Body (n1State true)).out = .raised 1 ∧
    (run true n1Body (n1State true)).st.heap.cls 1 = .typeError ∧
    n1Body.direct = false ∧ (Body.forceReraise true).forceCaught false = true := by
  decide

/-! ### the context after its `with` block -/

/-- **sre_exit_off_keeps_saved.**  `__exit__` leaves the four fields alone when the body raised and
    when the body completed with the flag off (and in the latter case does nothing else either): the
    saved type, value and traceback are still there for a later `ctxt.force_reraise()`. -/
theorem sre_exit_off_keeps_saved (f : Frame) (c : Sre) (s : St) :
    (∀ e, exitCtx c s (.raised e) = c) ∧
    (c.reraise = false → exitCtx c s .ok = c ∧ exitSre f c s .ok = (s, .ok)) := by
  refine ⟨fun e => rfl, fun h => ?_⟩
  simp [exitCtx, exitSre, h]

/-- a normal exit with the flag on (it re-raised the saved value) leaves the value and traceback
    cleared and the type in place — the state from which finding N1 arises -/
theorem sre_exit_on_clears_value (c : Sre) (s : St) (v : ExcId)
    (hfl : c.reraise = true) (hv : c.value = some v) :
    (exitCtx c s .ok).value = none ∧ (exitCtx c s .ok).tb = [] ∧ (exitCtx c s .ok).type_ = c.type_ := by
  obtain ⟨rr, ty, val, tb, sk⟩ := c
  simp only at hfl hv
  subst hfl hv
  simp [exitCtx, force, raiseSaved]

/-- for every body that completes with the flag off, the operations written after the `with` block
    run on exactly the context (and state) the body left -/
theorem sre_late_ops_see_saved (fl : Bool) (body late : Body) (c : Sre) (s : St)
    (hok : (exec body (enter (Sre.init fl) s) s).out = .ok)
    (hfl : (exec body (enter (Sre.init fl) s) s).ctx.reraise = false) :
    exec (.nestThen fl body late) c s =
      ⟨(exec late (exec body (enter (Sre.init fl) s) s).ctx (exec body (enter (Sre.init fl) s) s).st).st, c,
       (exec late (exec body (enter (Sre.init fl) s) s).ctx (exec body (enter (Sre.init fl) s) s).st).out⟩ := by
  simp [exec, exitSre, exitCtx, hok, hfl]

/-- **sre_late_force_reraises_saved.**  For every body without direct `force_reraise`/`capture` that
    completes with the flag off: a `ctxt.force_reraise()` written after the `with` block (still inside
    the `except` clause) raises the exception that was handled on entry — the same object — with the
    traceback it had when it was saved, under the frames force_reraise and scenario. -/
theorem sre_late_force_reraises_saved (fl : Bool) (body : Body) (c : Sre) (s : St) (e₀ : ExcId)
    (hact : s.active = some e₀) (hd : body.direct = false)
    (hok : (exec body (enter (Sre.init fl) s) s).out = .ok)
    (hfl : (exec body (enter (Sre.init fl) s) s).ctx.reraise = false) :
    (exec (.nestThen fl body (.forceReraise false)) c s).out = .raised e₀ ∧
    (exec (.nestThen fl body (.forceReraise false)) c s).st.heap.tb e₀ = [.scen, .sreForce] ++ s.heap.tb e₀ ∧
    (exec (.nestThen fl body (.forceReraise false)) c s).ctx = c := by
  have inv := sre_saved_invariant body (enter (Sre.init fl) s) s hd
  rw [lemma_enter_active fl s e₀ hact] at inv
  simp only at inv
  rw [sre_late_ops_see_saved fl body _ c s hok hfl]
  have key := sre_force_raises_saved false (exec body (enter (Sre.init fl) s) s).ctx
    (exec body (enter (Sre.init fl) s) s).st e₀ (by rw [lemma_enter_active fl s e₀ hact]; exact inv.2.1)
  rw [lemma_enter_active fl s e₀ hact] at key ⊢
  rw [inv.2.2] at key
  exact ⟨key.1, key.2.1, rfl⟩

/-- … and the same after the whole `try` statement, when nothing is being handled any more: the
    traceback is the one `e₀` had when it was caught. -/
theorem sre_late_force_after_except (fl : Bool) (body : Body) (c : Sre) (s : St) (e₀ : ExcId)
    (hd : body.direct = false)
    (hok : (exec body (enter (Sre.init fl) { s.through e₀ .scen with excInfo := e₀ :: s.excInfo })
        { s.through e₀ .scen with excInfo := e₀ :: s.excInfo }).out = .ok)
    (hfl : (exec body (enter (Sre.init fl) { s.through e₀ .scen with excInfo := e₀ :: s.excInfo })
        { s.through e₀ .scen with excInfo := e₀ :: s.excInfo }).ctx.reraise = false) :
    (exec (.handleNestThen e₀ fl body (.forceReraise false)) c s).out = .raised e₀ ∧
    (exec (.handleNestThen e₀ fl body (.forceReraise false)) c s).st.heap.tb e₀
      = [.scen, .sreForce, .scen] ++ s.heap.tb e₀ ∧
    (exec (.handleNestThen e₀ fl body (.forceReraise false)) c s).st.excInfo = s.excInfo := by
  generalize hsh : ({ s.through e₀ .scen with excInfo := e₀ :: s.excInfo } : St) = sh at hok hfl
  have hact : sh.active = some e₀ := by subst hsh; rfl
  have htb : sh.heap.tb e₀ = .scen :: s.heap.tb e₀ := by
    subst hsh; simp [St.through, Heap.through, Heap.setTb]
  have inv := sre_saved_invariant body (enter (Sre.init fl) sh) sh hd
  have hen := lemma_enter_active fl sh e₀ hact
  have hv : (exec body (enter (Sre.init fl) sh) sh).ctx.value = some e₀ := by rw [inv.2.1, hen]
  have ht : (exec body (enter (Sre.init fl) sh) sh).ctx.tb = .scen :: s.heap.tb e₀ := by
    rw [inv.2.2, hen]; exact htb
  have hs1 : (s.through e₀ .scen).excInfo = s.excInfo := rfl
  have key := sre_force_raises_saved false (exec body (enter (Sre.init fl) sh) sh).ctx
    { (exec body (enter (Sre.init fl) sh) sh).st with excInfo := s.excInfo } e₀ hv
  have hex := exec_excInfo_restored (.forceReraise false) (exec body (enter (Sre.init fl) sh) sh).ctx
    { (exec body (enter (Sre.init fl) sh) sh).st with excInfo := s.excInfo }
  rw [ht] at key
  simp only [exec, hs1, hsh, exitSre, exitCtx, hok, hfl] at key hex ⊢
  exact ⟨key.1, key.2.1, hex⟩

/-! ### a context object used again -/

/-- **`__enter__` always captures.**  Entering a context object — new, or used before and left in any
    state whatever (a saved first failure, a cleared value with the type still set, a switched-off flag)
    — saves the exception being handled *now*, with its class and its traceback of now; only the `reraise`
    attribute is kept from before. -/
theorem sre_enter_recaptures (c : Sre) (s : St) (a : ExcId) (h : s.active = some a) :
    (enter c s).value = some a ∧ (enter c s).tb = s.heap.tb a ∧ (enter c s).type_ = some (s.heap.cls a) ∧
    (enter c s).reraise = c.reraise := by
  simp [lemma_enter_active_any c s a h]

/-- **sre_reuse_reraises_current.**  `with ctxt: body` on a context object in *any* previous state, for
    every body without direct operations that completes with the flag on: the exception handled on THIS
    entry comes out — the same object, with its own traceback under force_reraise / `__exit__` / scenario
    — never anything an earlier use had saved.  Nothing is logged, no object is created. -/
theorem sre_reuse_reraises_current (body : Body) (c : Sre) (s : St) (e₀ : ExcId)
    (hact : s.active = some e₀) (hd : body.direct = false)
    (hok : (exec body (enter c s) s).out = .ok)
    (hfl : (exec body (enter c s) s).ctx.reraise = true) :
    (exec (.enterCur body) c s).out = .raised e₀ ∧
    (exec (.enterCur body) c s).st.heap.tb e₀ = [.scen, .sreExit, .sreForce] ++ s.heap.tb e₀ ∧
    (exec (.enterCur body) c s).st.log = (exec body (enter c s) s).st.log ∧
    (exec (.enterCur body) c s).st.heap.next = (exec body (enter c s) s).st.heap.next := by
  have inv := sre_saved_invariant body (enter c s) s hd
  have hen := lemma_enter_active_any c s e₀ hact
  have hv : (exec body (enter c s) s).ctx.value = some e₀ := by rw [inv.2.1, hen]
  have ht : (exec body (enter c s) s).ctx.tb = s.heap.tb e₀ := by rw [inv.2.2, hen]
  have key := sre_exit_reraises_saved .scen (exec body (enter c s) s).ctx (exec body (enter c s) s).st e₀ hfl hv
  rw [ht] at key
  simp only [exec, hok]
  exact ⟨key.1, key.2.1, key.2.2.2.1, key.2.2.2.2.2.1⟩

/-- a reused context whose flag is off when the body completes raises nothing and changes nothing, and
    keeps what it captured on this entry -/
theorem sre_reuse_flag_off_silent (body : Body) (c : Sre) (s : St)
    (hok : (exec body (enter c s) s).out = .ok)
    (hfl : (exec body (enter c s) s).ctx.reraise = false) :
    exec (.enterCur body) c s = ⟨(exec body (enter c s) s).st, (exec body (enter c s) s).ctx, .ok⟩ := by
  simp [exec, exitSre, exitCtx, hok, hfl]

/-- a reused context whose body raises logs the exception handled on THIS entry (iff the flag is on) -/
theorem sre_reuse_body_raise_logs_current (body : Body) (c : Sre) (s : St) (e₀ e' : ExcId)
    (hact : s.active = some e₀) (hd : body.direct = false)
    (hr : (exec body (enter c s) s).out = .raised e') :
    (exec (.enterCur body) c s).out = .raised e' ∧
    (exec (.enterCur body) c s).st.log = (exec body (enter c s) s).st.log ++
      (if (exec body (enter c s) s).ctx.reraise then [⟨some e₀, s.heap.tb e₀, c.sink⟩] else []) := by
  have inv := sre_saved_invariant body (enter c s) s hd
  have hen := lemma_enter_active_any c s e₀ hact
  have hv : (exec body (enter c s) s).ctx.value = some e₀ := by rw [inv.2.1, hen]
  have ht : (exec body (enter c s) s).ctx.tb = s.heap.tb e₀ := by rw [inv.2.2, hen]
  have hs : (exec body (enter c s) s).ctx.sink = c.sink := by rw [exec_logger_kept, lemma_enter_sink]
  simp only [exec, exitSre, hr, hv, ht, hs]
  cases (exec body (enter c s) s).ctx.reraise <;> simp

/-! ### outside the class of N1 nothing is invented -/

/-- a context is *sound* when a cleared value comes with a cleared type (true of a new context, after
    `__enter__` and after `capture`; false after `force_reraise`) -/
def Sre.sound (c : Sre) : Prop := c.value = none → c.type_ = none

/-- every nested context of the program is outside the class of finding N1 -/
def Body.n1Free : Body → Bool
  | .nest _ b => !(b.forceCaught false) && b.n1Free
  | .seq a b => a.n1Free && b.n1Free
  | .handle _ h => h.n1Free
  | .filterCtx _ _ b => b.n1Free
  | .rpoe _ b => b.n1Free
  | .nestThen _ b l => !(b.forceCaught false) && b.n1Free && !(l.forceCaught false) && l.n1Free
  | .handleNestThen _ _ b l => !(b.forceCaught false) && b.n1Free && !(l.forceCaught false) && l.n1Free
  | .enterCur b => b.n1Free
  | .swallow b => b.n1Free
  | _ => true

/-- `h'` has every object of `h` with its class, and the objects created in between are only the
    documented new exceptions: RuntimeError (nothing captured), the OSError of a failing remove,
    the exception made by raise_with_cause — never an instance of a user class, never a TypeError -/
def Heap.ext (h h' : Heap) : Prop :=
  h.next ≤ h'.next ∧ (∀ i : Nat, i < h.next → h'.cls i = h.cls i) ∧
  (∀ i : Nat, h.next ≤ i → i < h'.next →
      h'.cls i = .runtimeError ∨ h'.cls i = .osError ∨ h'.cls i = .caused)

theorem lemma_ext_same (h h' : Heap) (hn : h'.next = h.next) (hc : h'.cls = h.cls) : Heap.ext h h' :=
  ⟨by omega, fun i _ => by rw [hc], fun i h1 h2 => by omega⟩

theorem lemma_ext_ite (p : Prop) [Decidable p] (h a b : Heap) (ha : Heap.ext h a) (hb : Heap.ext h b) :
    Heap.ext h (if p then a else b) := by
  split <;> assumption

theorem lemma_ext_trans {a b c : Heap} (h1 : Heap.ext a b) (h2 : Heap.ext b c) : Heap.ext a c := by
  obtain ⟨n1, k1, f1⟩ := h1
  obtain ⟨n2, k2, f2⟩ := h2
  refine ⟨by omega, fun i hi => ?_, fun i lo hi => ?_⟩
  · rw [k2 i (by omega), k1 i hi]
  · by_cases h : i < b.next
    · rw [k2 i h]; exact f1 i lo h
    · exact f2 i (by omega) hi

theorem lemma_ext_fresh (s : St) (cl : Cls) (cause : Option (Option ExcId)) (f : Frame)
    (hc : cl = .runtimeError ∨ cl = .osError ∨ cl = .caused) :
    Heap.ext s.heap (s.raiseFresh cl cause f).1.heap := by
  refine ⟨?_, ?_, ?_⟩
  · simp [St.raiseFresh, Heap.alloc, Heap.through, Heap.setTb]
  · intro i hi
    have : i ≠ s.heap.next := by omega
    simp [St.raiseFresh, Heap.alloc, Heap.through, Heap.setTb, this]
  · intro i lo hi
    simp [St.raiseFresh, Heap.alloc, Heap.through, Heap.setTb] at hi
    have : i = s.heap.next := by omega
    simpa [St.raiseFresh, Heap.alloc, Heap.through, Heap.setTb, this] using hc

theorem lemma_enter_sound_any (c : Sre) (s : St) : (enter c s).sound := by
  unfold enter capture Sre.sound; cases s.active <;> simp

theorem lemma_enter_sound (fl : Bool) (s : St) : (enter (Sre.init fl) s).sound :=
  lemma_enter_sound_any _ s

theorem lemma_force_ext (c : Sre) (s : St) (hc : c.sound) : Heap.ext s.heap (force c s).1.heap := by
  obtain ⟨rr, ty, v, tb, sk⟩ := c
  cases v with
  | some v =>
    simp only [force, raiseSaved]
    apply lemma_ext_same
    · split <;> rfl
    · split <;> rfl
  | none =>
    have : ty = none := hc rfl
    subst this
    simp only [force]
    exact lemma_ext_fresh s .runtimeError none .sreForce (Or.inl rfl)

theorem lemma_exitSre_ext (f : Frame) (c : Sre) (s : St) (o : Compl) (hc : c.sound) :
    Heap.ext s.heap (exitSre f c s o).1.heap := by
  cases o with
  | raised e =>
    simp only [exitSre]
    split <;> exact lemma_ext_same _ _ rfl rfl
  | ok =>
    simp only [exitSre]
    split
    · exact lemma_ext_trans (lemma_force_ext c s hc) (lemma_ext_same _ _ rfl rfl)
    · exact lemma_ext_same _ _ rfl rfl

theorem lemma_exitSre_raises (f : Frame) (c : Sre) (s : St) (o : Compl) (h : c.reraise = true) :
    (exitSre f c s o).2 ≠ .ok := by
  cases o <;> simp [exitSre, h]

theorem lemma_cmExit (v : ExcId) (t : Tb) (x : ExcId) (s : St) :
    Heap.ext s.heap (cmExit v t x s).1.heap ∧ (cmExit v t x s).2 ≠ .ok := by
  simp only [cmExit]
  split
  · exact ⟨lemma_ext_same _ _ rfl rfl, by simp⟩
  · exact ⟨lemma_ext_same _ _ rfl rfl, by simp⟩

theorem lemma_deleteIfExists_ext (s : St) : Heap.ext s.heap (deleteIfExists s).1.heap := by
  simp only [deleteIfExists]
  split
  · exact lemma_ext_same _ _ rfl rfl
  · exact lemma_ext_same _ _ rfl rfl
  · exact lemma_ext_same _ _ rfl rfl
  · exact lemma_ext_fresh s .osError none .delete (Or.inr (Or.inl rfl))

theorem lemma_callRemove_ext (rm : RemoveFn) (s : St) : Heap.ext s.heap (callRemove rm s).1.heap := by
  cases rm with
  | default => exact lemma_deleteIfExists_ext s
  | noop => exact lemma_ext_same _ _ rfl rfl
  | raises e => exact lemma_ext_same _ _ rfl rfl
  | wrapped =>
    simp only [callRemove]
    have h := lemma_deleteIfExists_ext s
    generalize deleteIfExists s = d at h ⊢
    obtain ⟨s1, o⟩ := d
    cases o with
    | ok => exact h
    | raised x => exact lemma_ext_trans h (lemma_ext_same _ _ rfl rfl)

theorem lemma_rpoeExit (rm : RemoveFn) (e : ExcId) (s : St) :
    Heap.ext s.heap (rpoeExit rm e s).1.heap ∧ (rpoeExit rm e s).2 ≠ .ok := by
  simp only [rpoeExit]
  split
  · -- `except Exception` branch
    generalize hs2 : ({ s.through e .rpoeGen with excInfo := e :: (s.through e .rpoeGen).excInfo } : St) = s2
    have h12 : Heap.ext s.heap s2.heap := by subst hs2; exact lemma_ext_same _ _ rfl rfl
    have hrm := lemma_callRemove_ext rm s2
    generalize callRemove rm s2 = cr at hrm ⊢
    have h33 : Heap.ext cr.1.heap (removeOut cr.1 cr.2).heap := by
      cases cr.2 <;> exact lemma_ext_same _ _ rfl rfl
    have hex := lemma_exitSre_ext .rpoeGen (enter (Sre.init true .library) s2) (removeOut cr.1 cr.2) cr.2
      (lemma_enter_sound_any (Sre.init true .library) s2)
    have hne := lemma_exitSre_raises .rpoeGen (enter (Sre.init true .library) s2) (removeOut cr.1 cr.2) cr.2
      (lemma_enter_reraise_any (Sre.init true .library) s2)
    generalize exitSre .rpoeGen (enter (Sre.init true .library) s2) (removeOut cr.1 cr.2) cr.2 = ex at hex hne ⊢
    obtain ⟨s4, out⟩ := ex
    simp only at hex hne ⊢
    cases out with
    | ok => exact absurd rfl hne
    | raised x =>
      have hcm := lemma_cmExit e (s.heap.tb e) x { s4 with excInfo := (s.through e .rpoeGen).excInfo }
      refine ⟨?_, hcm.2⟩
      exact lemma_ext_trans h12 (lemma_ext_trans hrm (lemma_ext_trans h33 (lemma_ext_trans hex hcm.1)))
  · have hcm := lemma_cmExit e (s.heap.tb e) e (s.through e .rpoeGen)
    exact ⟨lemma_ext_trans (lemma_ext_same _ _ rfl rfl) hcm.1, hcm.2⟩

theorem lemma_filterExit_ext (fl : Filter) (s : St) (o : Compl) :
    Heap.ext s.heap (filterExit fl s o).1.heap := by
  cases o with
  | ok => exact lemma_ext_same _ _ rfl rfl
  | raised e =>
    simp only [filterExit, callPred]
    cases fl.shouldIgnore e <;> exact lemma_ext_same _ _ rfl rfl

theorem lemma_filterCall_ext (fl : Filter) (e : ExcId) (s : St) :
    Heap.ext s.heap (filterCall fl e s).1.heap := by
  simp only [filterCall, callPred]
  generalize s.activeTb = tbk
  cases fl.shouldIgnore e
  · exact lemma_ext_same _ _ rfl rfl
  · simp only
    split
    · by_cases hq : s.heap.tb e = tbk
      · simp only [hq, ne_eq, not_true_eq_false, if_false]; exact lemma_ext_same _ _ rfl rfl
      · simp only [hq, ne_eq, not_false_eq_true, if_true]; exact lemma_ext_same _ _ rfl rfl
    · exact lemma_ext_same _ _ rfl rfl
  · exact lemma_ext_same _ _ rfl rfl

/-- what `__exit__` does to the heap and, when it returns normally, to the context -/
theorem lemma_exit_full (f : Frame) (c : Sre) (s : St) (o : Compl)
    (hc : o = .ok → c.sound) :
    Heap.ext s.heap (exitSre f c s o).1.heap ∧ ((exitSre f c s o).2 = .ok → (exitCtx c s o).sound) := by
  cases o with
  | raised e =>
    refine ⟨?_, fun h => ?_⟩
    · simp only [exitSre]; split <;> exact lemma_ext_same _ _ rfl rfl
    · simp [exitSre] at h
  | ok =>
    have hs := hc rfl
    refine ⟨lemma_exitSre_ext f c s .ok hs, fun h => ?_⟩
    by_cases hr : c.reraise = true
    · simp [exitSre, hr] at h
    · simpa [exitCtx, hr] using hs

theorem lemma_no_invention (b : Body) : ∀ (uf : Bool) (c : Sre) (s : St),
    b.forceCaught uf = false → b.n1Free = true → c.sound →
    Heap.ext s.heap (exec b c s).st.heap ∧
    ((uf = true ∨ (exec b c s).out = .ok) → (exec b c s).ctx.sound) := by
  induction b with
  | nop => intro uf c s _ _ hc; exact ⟨lemma_ext_same _ _ rfl rfl, fun _ => hc⟩
  | raiseCatch e => intro uf c s _ _ hc; exact ⟨lemma_ext_same _ _ rfl rfl, fun _ => hc⟩
  | raiseNew e => intro uf c s _ _ hc; exact ⟨lemma_ext_same _ _ rfl rfl, fun _ => hc⟩
  | setReraise b => intro uf c s _ _ hc; exact ⟨lemma_ext_same _ _ rfl rfl, fun _ => hc⟩
  | nest fl body ih =>
    intro uf c s _ hn hc
    simp only [Body.n1Free, Bool.and_eq_true, Bool.not_eq_true'] at hn
    have h := ih false (enter (Sre.init fl) s) s hn.1 hn.2 (lemma_enter_sound fl s)
    simp only [exec]
    refine ⟨?_, fun _ => hc⟩
    cases ho : (exec body (enter (Sre.init fl) s) s).out with
    | raised e =>
      simp only [exitSre]
      split
      · exact lemma_ext_trans h.1 (lemma_ext_same _ _ rfl rfl)
      · exact h.1
    | ok =>
      exact lemma_ext_trans h.1 (lemma_exitSre_ext _ _ _ _ (h.2 (Or.inr ho)))
  | forceReraise caught =>
    intro uf c s hf _ hc
    simp only [Body.forceCaught, Bool.or_eq_false_iff] at hf
    obtain ⟨rfl, rfl⟩ := hf
    simp only [exec]
    refine ⟨lemma_ext_trans (lemma_force_ext c s hc) (lemma_ext_same _ _ rfl rfl), ?_⟩
    intro h
    rcases h with h | h
    · simp at h
    · generalize force c s = fr at h
      obtain ⟨s1, c1, v⟩ := fr
      simp at h
  | capture =>
    intro uf c s _ _ hc
    simp only [exec, Oslo.Exc.capture]
    cases h : s.active with
    | none =>
      simp only [if_true]
      exact ⟨lemma_ext_trans (lemma_ext_fresh s .runtimeError none .sreCapture (Or.inl rfl))
        (lemma_ext_same _ _ rfl rfl), fun _ => hc⟩
    | some a =>
      refine ⟨lemma_ext_same _ _ rfl rfl, fun _ => ?_⟩
      intro hv; simp at hv
  | seq a b iha ihb =>
    intro uf c s hf hn hc
    simp only [Body.forceCaught, Bool.or_eq_false_iff] at hf
    simp only [Body.n1Free, Bool.and_eq_true] at hn
    have ha := iha uf c s hf.1 hn.1 hc
    simp only [exec]
    cases ho : (exec a c s).out with
    | ok =>
      simp only
      have hb := ihb uf (exec a c s).ctx (exec a c s).st hf.2 hn.2 (ha.2 (Or.inr ho))
      exact ⟨lemma_ext_trans ha.1 hb.1, hb.2⟩
    | raised e =>
      simp only
      refine ⟨ha.1, fun h => ?_⟩
      rcases h with h | h
      · exact ha.2 (Or.inl h)
      · rw [ho] at h; simp at h
  | handle e h ih =>
    intro uf c s hf hn hc
    simp only [Body.forceCaught] at hf
    simp only [Body.n1Free] at hn
    have := ih uf c { s.through e .scen with excInfo := e :: (s.through e .scen).excInfo } hf hn hc
    simp only [exec]
    exact ⟨lemma_ext_trans (lemma_ext_same _ _ rfl rfl) this.1, this.2⟩
  | filterCtx bound p body ih =>
    intro uf c s hf hn hc
    simp only [Body.forceCaught] at hf
    simp only [Body.n1Free] at hn
    have := ih true c s hf hn hc
    simp only [exec]
    exact ⟨lemma_ext_trans this.1 (lemma_filterExit_ext _ _ _), fun _ => this.2 (Or.inl rfl)⟩
  | filterCall bound p e =>
    intro uf c s _ _ hc
    simp only [exec]
    exact ⟨lemma_filterCall_ext _ _ _, fun _ => hc⟩
  | rpoe rm body ih =>
    intro uf c s hf hn hc
    simp only [Body.forceCaught] at hf
    simp only [Body.n1Free] at hn
    have h := ih uf c s hf hn hc
    simp only [exec]
    cases ho : (exec body c s).out with
    | ok => simp only; exact ⟨h.1, fun _ => h.2 (Or.inr ho)⟩
    | raised e =>
      simp only
      have hr := lemma_rpoeExit rm e (exec body c s).st
      refine ⟨lemma_ext_trans h.1 hr.1, fun hh => ?_⟩
      rcases hh with hh | hh
      · exact h.2 (Or.inl hh)
      · exact absurd hh hr.2
  | rwc x =>
    intro uf c s _ _ hc
    simp only [exec]
    generalize (match x with
      | some given => given
      | none => s.active) = cz
    exact ⟨lemma_ext_trans (lemma_ext_fresh s .caused (some cz) .rwc (Or.inr (Or.inr rfl)))
      (lemma_ext_same _ _ rfl rfl), fun _ => hc⟩
  | nestThen fl body late ihb ihl =>
    intro uf c s _ hn hc
    simp only [Body.n1Free, Bool.and_eq_true, Bool.not_eq_true'] at hn
    obtain ⟨⟨⟨hb1, hb2⟩, hl1⟩, hl2⟩ := hn
    have h := ihb false (enter (Sre.init fl) s) s hb1 hb2 (lemma_enter_sound fl s)
    simp only [exec]
    have hx := lemma_exit_full .scen (exec body (enter (Sre.init fl) s) s).ctx
      (exec body (enter (Sre.init fl) s) s).st (exec body (enter (Sre.init fl) s) s).out
      (fun ho => h.2 (Or.inr ho))
    cases ho : (exitSre .scen (exec body (enter (Sre.init fl) s) s).ctx
        (exec body (enter (Sre.init fl) s) s).st (exec body (enter (Sre.init fl) s) s).out).2 with
    | raised x =>
      simp only
      exact ⟨lemma_ext_trans h.1 hx.1, fun _ => hc⟩
    | ok =>
      simp only
      have hl := ihl false _ (exitSre .scen (exec body (enter (Sre.init fl) s) s).ctx
        (exec body (enter (Sre.init fl) s) s).st (exec body (enter (Sre.init fl) s) s).out).1
        hl1 hl2 (hx.2 ho)
      exact ⟨lemma_ext_trans h.1 (lemma_ext_trans hx.1 hl.1), fun _ => hc⟩
  | handleNestThen e fl body late ihb ihl =>
    intro uf c s _ hn hc
    simp only [Body.n1Free, Bool.and_eq_true, Bool.not_eq_true'] at hn
    obtain ⟨⟨⟨hb1, hb2⟩, hl1⟩, hl2⟩ := hn
    generalize hsh : ({ s.through e .scen with excInfo := e :: (s.through e .scen).excInfo } : St) = sh
    have h0 : Heap.ext s.heap sh.heap := by subst hsh; exact lemma_ext_same _ _ rfl rfl
    have h := ihb false (enter (Sre.init fl) sh) sh hb1 hb2 (lemma_enter_sound fl sh)
    simp only [exec, hsh]
    have hx := lemma_exit_full .scen (exec body (enter (Sre.init fl) sh) sh).ctx
      (exec body (enter (Sre.init fl) sh) sh).st (exec body (enter (Sre.init fl) sh) sh).out
      (fun ho => h.2 (Or.inr ho))
    cases ho : (exitSre .scen (exec body (enter (Sre.init fl) sh) sh).ctx
        (exec body (enter (Sre.init fl) sh) sh).st (exec body (enter (Sre.init fl) sh) sh).out).2 with
    | raised x =>
      simp only
      exact ⟨lemma_ext_trans h0 (lemma_ext_trans h.1 (lemma_ext_trans hx.1 (lemma_ext_same _ _ rfl rfl))),
        fun _ => hc⟩
    | ok =>
      simp only
      have hl := ihl false _ { (exitSre .scen (exec body (enter (Sre.init fl) sh) sh).ctx
        (exec body (enter (Sre.init fl) sh) sh).st (exec body (enter (Sre.init fl) sh) sh).out).1 with
          excInfo := s.excInfo } hl1 hl2 (hx.2 ho)
      exact ⟨lemma_ext_trans h0 (lemma_ext_trans h.1 (lemma_ext_trans hx.1
        (lemma_ext_trans (lemma_ext_same _ _ rfl rfl) hl.1))), fun _ => hc⟩

  | enterCur body ih =>
    intro uf c s hf hn hc
    simp only [Body.forceCaught, Bool.or_eq_false_iff] at hf
    simp only [Body.n1Free] at hn
    obtain ⟨rfl, hf2⟩ := hf
    have h := ih false (enter c s) s hf2 hn (lemma_enter_sound_any c s)
    have hx := lemma_exit_full .scen (exec body (enter c s) s).ctx (exec body (enter c s) s).st
      (exec body (enter c s) s).out (fun ho => h.2 (Or.inr ho))
    simp only [exec]
    refine ⟨lemma_ext_trans h.1 hx.1, fun hh => ?_⟩
    rcases hh with hh | hh
    · simp at hh
    · exact hx.2 hh
  | swallow body ih =>
    intro uf c s hf hn hc
    simp only [Body.forceCaught] at hf
    simp only [Body.n1Free] at hn
    have h := ih true c s hf hn hc
    simp only [exec]
    split
    · exact ⟨h.1, fun _ => h.2 (Or.inl rfl)⟩
    · exact ⟨h.1, fun _ => h.2 (Or.inl rfl)⟩

/-- **Nothing is invented outside the class of N1.**  For every program in which no
    `save_and_reraise_exception` body (at any nesting depth) contains a direct `force_reraise()` whose
    exception cannot leave that body, run from any state with a sound context: every exception object
    that exists afterwards either existed before (with the same class) or is one of the documented new
    exceptions (RuntimeError "nothing captured", the OSError of a failing remove, the exception made by
    raise_with_cause).  No instance of a caught exception's class and no TypeError is ever created —
    which is exactly what `sre_force_then_exit_invents` exhibits inside the class. -/
theorem no_invention_outside_N1 (b : Body) (c : Sre) (s : St)
    (h1 : b.forceCaught false = false) (h2 : b.n1Free = true) (hc : c.sound) :
    Heap.ext s.heap (exec b c s).st.heap :=
  (lemma_no_invention b false c s h1 h2 hc).1

/-! ### nothing an exception carries is lost: class, `__cause__`, `__suppress_context__` -/

/-- every object of `h` is still there in `h'` with its class, its `__cause__` and its
    `__suppress_context__` -/
def Heap.kept (h h' : Heap) : Prop :=
  h.next ≤ h'.next ∧
  ∀ i : Nat, i < h.next → h'.cls i = h.cls i ∧ h'.cause i = h.cause i ∧ h'.suppress i = h.suppress i

theorem lemma_kept_same (h h' : Heap) (hn : h'.next = h.next) (hc : h'.cls = h.cls)
    (hk : h'.cause = h.cause) (hs : h'.suppress = h.suppress) : Heap.kept h h' :=
  ⟨by omega, fun i _ => by rw [hc, hk, hs]; exact ⟨rfl, rfl, rfl⟩⟩

theorem lemma_kept_trans {a b c : Heap} (h1 : Heap.kept a b) (h2 : Heap.kept b c) : Heap.kept a c := by
  obtain ⟨n1, k1⟩ := h1
  obtain ⟨n2, k2⟩ := h2
  refine ⟨by omega, fun i hi => ?_⟩
  have a1 := k1 i hi
  have a2 := k2 i (by omega)
  exact ⟨a2.1.trans a1.1, a2.2.1.trans a1.2.1, a2.2.2.trans a1.2.2⟩

theorem lemma_kept_alloc (h : Heap) (cl : Cls) (frm : Option (Option ExcId)) :
    Heap.kept h (h.alloc cl frm).1 := by
  refine ⟨by simp [Heap.alloc], fun i hi => ?_⟩
  have : i ≠ h.next := by omega
  simp [Heap.alloc, this]

theorem lemma_kept_fresh (s : St) (cl : Cls) (frm : Option (Option ExcId)) (f : Frame) :
    Heap.kept s.heap (s.raiseFresh cl frm f).1.heap :=
  lemma_kept_trans (lemma_kept_alloc s.heap cl frm) (lemma_kept_same _ _ rfl rfl rfl rfl)

theorem lemma_raiseSaved_kept (v : ExcId) (c : Sre) (s : St) : Heap.kept s.heap (raiseSaved v c s).1.heap := by
  simp only [raiseSaved]
  apply lemma_kept_same <;> (split <;> rfl)

theorem lemma_force_kept (c : Sre) (s : St) : Heap.kept s.heap (force c s).1.heap := by
  obtain ⟨rr, ty, v, tb, sk⟩ := c
  cases v with
  | some v => simp only [force]; exact lemma_raiseSaved_kept v _ s
  | none =>
    cases ty with
    | none => simp only [force]; exact lemma_kept_fresh s .runtimeError none .sreForce
    | some cl =>
      simp only [force]
      split
      · exact lemma_kept_fresh s .typeError none .sreForce
      · exact lemma_kept_trans (lemma_kept_alloc s.heap cl none)
          (lemma_raiseSaved_kept (s.heap.alloc cl none).2 _ { s with heap := (s.heap.alloc cl none).1 })

theorem lemma_exitSre_kept (f : Frame) (c : Sre) (s : St) (o : Compl) :
    Heap.kept s.heap (exitSre f c s o).1.heap := by
  cases o with
  | raised e => simp only [exitSre]; split <;> exact lemma_kept_same _ _ rfl rfl rfl rfl
  | ok =>
    simp only [exitSre]
    split
    · exact lemma_kept_trans (lemma_force_kept c s) (lemma_kept_same _ _ rfl rfl rfl rfl)
    · exact lemma_kept_same _ _ rfl rfl rfl rfl

theorem lemma_cmExit_kept (v : ExcId) (t : Tb) (x : ExcId) (s : St) :
    Heap.kept s.heap (cmExit v t x s).1.heap := by
  simp only [cmExit]; split <;> exact lemma_kept_same _ _ rfl rfl rfl rfl

theorem lemma_deleteIfExists_kept (s : St) : Heap.kept s.heap (deleteIfExists s).1.heap := by
  simp only [deleteIfExists]
  split
  · exact lemma_kept_same _ _ rfl rfl rfl rfl
  · exact lemma_kept_same _ _ rfl rfl rfl rfl
  · exact lemma_kept_same _ _ rfl rfl rfl rfl
  · exact lemma_kept_fresh s .osError none .delete

theorem lemma_callRemove_kept (rm : RemoveFn) (s : St) : Heap.kept s.heap (callRemove rm s).1.heap := by
  cases rm with
  | default => exact lemma_deleteIfExists_kept s
  | noop => exact lemma_kept_same _ _ rfl rfl rfl rfl
  | raises e => exact lemma_kept_same _ _ rfl rfl rfl rfl
  | wrapped =>
    simp only [callRemove]
    have h := lemma_deleteIfExists_kept s
    generalize deleteIfExists s = d at h ⊢
    obtain ⟨s1, o⟩ := d
    cases o with
    | ok => exact h
    | raised x => exact lemma_kept_trans h (lemma_kept_same _ _ rfl rfl rfl rfl)

theorem lemma_rpoeExit_kept (rm : RemoveFn) (e : ExcId) (s : St) :
    Heap.kept s.heap (rpoeExit rm e s).1.heap := by
  simp only [rpoeExit]
  split
  · generalize hs2 : ({ s.through e .rpoeGen with excInfo := e :: (s.through e .rpoeGen).excInfo } : St) = s2
    have h12 : Heap.kept s.heap s2.heap := by subst hs2; exact lemma_kept_same _ _ rfl rfl rfl rfl
    have hrm := lemma_callRemove_kept rm s2
    generalize callRemove rm s2 = cr at hrm ⊢
    have h33 : Heap.kept cr.1.heap (removeOut cr.1 cr.2).heap := by
      cases cr.2 <;> exact lemma_kept_same _ _ rfl rfl rfl rfl
    have hex := lemma_exitSre_kept .rpoeGen (enter (Sre.init true .library) s2) (removeOut cr.1 cr.2) cr.2
    generalize exitSre .rpoeGen (enter (Sre.init true .library) s2) (removeOut cr.1 cr.2) cr.2 = ex at hex ⊢
    obtain ⟨s4, out⟩ := ex
    simp only at hex ⊢
    have h04 := lemma_kept_trans h12 (lemma_kept_trans hrm (lemma_kept_trans h33 hex))
    cases out with
    | ok => exact lemma_kept_trans h04 (lemma_kept_same _ _ rfl rfl rfl rfl)
    | raised x =>
      exact lemma_kept_trans h04
        (lemma_cmExit_kept e (s.heap.tb e) x { s4 with excInfo := (s.through e .rpoeGen).excInfo })
  · exact lemma_kept_trans (lemma_kept_same _ _ rfl rfl rfl rfl)
      (lemma_cmExit_kept e (s.heap.tb e) e (s.through e .rpoeGen))

theorem lemma_filterExit_kept (fl : Filter) (s : St) (o : Compl) :
    Heap.kept s.heap (filterExit fl s o).1.heap := by
  cases o with
  | ok => exact lemma_kept_same _ _ rfl rfl rfl rfl
  | raised e =>
    simp only [filterExit, callPred]
    cases fl.shouldIgnore e <;> exact lemma_kept_same _ _ rfl rfl rfl rfl

theorem lemma_filterCall_kept (fl : Filter) (e : ExcId) (s : St) :
    Heap.kept s.heap (filterCall fl e s).1.heap := by
  simp only [filterCall, callPred]
  generalize s.activeTb = tbk
  cases fl.shouldIgnore e
  · exact lemma_kept_same _ _ rfl rfl rfl rfl
  · simp only
    split
    · by_cases hq : s.heap.tb e = tbk
      · simp only [hq, ne_eq, not_true_eq_false, if_false]; exact lemma_kept_same _ _ rfl rfl rfl rfl
      · simp only [hq, ne_eq, not_false_eq_true, if_true]; exact lemma_kept_same _ _ rfl rfl rfl rfl
    · exact lemma_kept_same _ _ rfl rfl rfl rfl
  · exact lemma_kept_same _ _ rfl rfl rfl rfl

/-- **Re-raising preserves the chain** (and everything else never touches it): for every program, every
    context and every state, each exception object that existed before is still there afterwards with the
    same class, the same `__cause__` and the same `__suppress_context__` — whether it was re-raised by
    `__exit__`, by a direct or late `force_reraise()`, by `remove_path_on_error`, by `exception_filter`, or
    not at all.  (Only a brand-new exception made by `raise_with_cause` gets a cause.) -/
theorem exec_preserves_chain (b : Body) (c : Sre) (s : St) : Heap.kept s.heap (exec b c s).st.heap := by
  induction b generalizing c s with
  | nop => exact lemma_kept_same _ _ rfl rfl rfl rfl
  | raiseCatch e => exact lemma_kept_same _ _ rfl rfl rfl rfl
  | raiseNew e => exact lemma_kept_same _ _ rfl rfl rfl rfl
  | setReraise b => exact lemma_kept_same _ _ rfl rfl rfl rfl
  | nest fl body ih =>
    simp only [exec]
    exact lemma_kept_trans (ih _ _) (lemma_exitSre_kept _ _ _ _)
  | forceReraise caught =>
    simp only [exec]
    exact lemma_kept_trans (lemma_force_kept c s) (lemma_kept_same _ _ rfl rfl rfl rfl)
  | capture =>
    simp only [exec, Oslo.Exc.capture]
    cases h : s.active with
    | none =>
      simp only [if_true]
      exact lemma_kept_trans (lemma_kept_fresh s .runtimeError none .sreCapture)
        (lemma_kept_same _ _ rfl rfl rfl rfl)
    | some a => exact lemma_kept_same _ _ rfl rfl rfl rfl
  | seq a b iha ihb =>
    simp only [exec]
    split
    · exact lemma_kept_trans (iha c s) (ihb _ _)
    · exact iha c s
  | handle e h ih =>
    simp only [exec]
    exact lemma_kept_trans (lemma_kept_same _ _ rfl rfl rfl rfl)
      (lemma_kept_trans (ih c { s.through e .scen with excInfo := e :: (s.through e .scen).excInfo })
        (lemma_kept_same _ _ rfl rfl rfl rfl))
  | filterCtx form p body ih =>
    simp only [exec]
    exact lemma_kept_trans (ih c s) (lemma_filterExit_kept _ _ _)
  | filterCall form p e =>
    simp only [exec]
    exact lemma_filterCall_kept _ _ _
  | rpoe rm body ih =>
    simp only [exec]
    split
    · exact ih c s
    · simp only []
      exact lemma_kept_trans (ih c s) (lemma_rpoeExit_kept _ _ _)
  | rwc x =>
    simp only [exec]
    exact lemma_kept_trans (lemma_kept_fresh s .caused _ .rwc) (lemma_kept_same _ _ rfl rfl rfl rfl)
  | nestThen fl body late ihb ihl =>
    simp only [exec]
    have h1 := lemma_kept_trans (ihb (enter (Sre.init fl) s) s)
      (lemma_exitSre_kept .scen (exec body (enter (Sre.init fl) s) s).ctx (exec body (enter (Sre.init fl) s) s).st
        (exec body (enter (Sre.init fl) s) s).out)
    split
    · simp only []
      exact lemma_kept_trans h1 (ihl _ _)
    · exact h1
  | handleNestThen e fl body late ihb ihl =>
    simp only [exec]
    generalize hsh : ({ s.through e .scen with excInfo := e :: (s.through e .scen).excInfo } : St) = sh
    have h0 : Heap.kept s.heap sh.heap := by subst hsh; exact lemma_kept_same _ _ rfl rfl rfl rfl
    have h1 := lemma_kept_trans h0
      (lemma_kept_trans (ihb (enter (Sre.init fl) sh) sh)
        (lemma_exitSre_kept .scen (exec body (enter (Sre.init fl) sh) sh).ctx
          (exec body (enter (Sre.init fl) sh) sh).st (exec body (enter (Sre.init fl) sh) sh).out))
    generalize exec body (enter (Sre.init fl) sh) sh = r at h1 ⊢
    generalize exitSre .scen r.ctx r.st r.out = ex at h1 ⊢
    split
    · simp only []
      exact lemma_kept_trans h1 (ihl _ { ex.1 with excInfo := s.excInfo })
    · exact lemma_kept_trans h1 (lemma_kept_same _ _ rfl rfl rfl rfl)
  | enterCur body ih =>
    simp only [exec]
    exact lemma_kept_trans (ih _ _) (lemma_exitSre_kept _ _ _ _)
  | swallow body ih =>
    simp only [exec]
    split
    · exact ih _ _
    · exact ih _ _

/-- in particular the original re-raised by `with save_and_reraise_exception()` (any body, any way the
    statement ends) still has its `__cause__` and `__suppress_context__` -/
theorem sre_reraise_preserves_chain (fl : Bool) (body : Body) (c : Sre) (s : St) (e₀ : ExcId)
    (he : e₀ < s.heap.next) :
    (exec (.nest fl body) c s).st.heap.cause e₀ = s.heap.cause e₀ ∧
    (exec (.nest fl body) c s).st.heap.suppress e₀ = s.heap.suppress e₀ ∧
    (exec (.nest fl body) c s).st.heap.cls e₀ = s.heap.cls e₀ :=
  let h := (exec_preserves_chain (.nest fl body) c s).2 e₀ he
  ⟨h.2.1, h.2.2, h.1⟩

/-! ### exception_filter -/

/-- **`__get__` binds what it is looked up through.**  The filter obtained through instance `obj` of
    class `owner` calls an instance method with that very `obj`, a class method with that `owner`, a static
    method as it is — it does not depend on any other instance or on earlier lookups. -/
theorem filter_get_binds {σ κ : Type} (obj : σ) (owner : κ) (e : ExcId)
    (fm : σ → ExcId → PredRes) (fc : κ → ExcId → PredRes) (fs : ExcId → PredRes) :
    (filterGet (.method fm : Wrapped σ κ) obj owner).shouldIgnore e = fm obj e ∧
    (filterGet (.classMethod fc : Wrapped σ κ) obj owner).shouldIgnore e = fc owner e ∧
    (filterGet (.staticMethod fs : Wrapped σ κ) obj owner).shouldIgnore e = fs e :=
  ⟨rfl, rfl, rfl⟩

/-- every way of making and reaching the filter (function, instance method, classmethod / staticmethod
    through the class or an instance) behaves like the function-made filter with the table that the
    instance / class / closure holds -/
theorem filter_form_irrelevant (form : FilterForm) (p : Pred) (body : Body) (e : ExcId) (c : Sre) (s : St) :
    exec (.filterCtx form p body) c s = exec (.filterCtx .func p body) c s ∧
    exec (.filterCall form p e) c s = exec (.filterCall .func p e) c s := by
  simp [exec, lemma_mkFilter_eq]

/-- two instances of one class used interleaved (`with a.filt: with b.filt: raise e`): the inner
    statement is decided by `b`'s own table and the outer one by `a`'s -/
theorem filter_instances_independent (pa pb : Pred) (e : ExcId) (c : Sre) (s : St) :
    (pb.eval e = .accept →
      (exec (.filterCtx .method pa (.filterCtx .method pb (.raiseNew e))) c s).out = .ok) ∧
    (pb.eval e = .reject → pa.eval e = .accept →
      (exec (.filterCtx .method pa (.filterCtx .method pb (.raiseNew e))) c s).out = .ok) ∧
    (pb.eval e = .reject → pa.eval e = .reject →
      (exec (.filterCtx .method pa (.filterCtx .method pb (.raiseNew e))) c s).out = .raised e) := by
  refine ⟨fun h => ?_, fun h1 h2 => ?_, fun h1 h2 => ?_⟩ <;>
    simp [exec, filterExit, callPred, lemma_mkFilter, *]

/-- **filter_exact** (context-manager form, function-made and bound-method filters alike): for every
    body, the `with filt:` statement ends normally iff the body did or the predicate accepts what the
    body raised; a rejected exception comes out as the same object with the state — its traceback
    included — exactly as the body left it; an exception raised by the predicate replaces it. -/
theorem filter_exact (bound : FilterForm) (p : Pred) (body : Body) (c : Sre) (s : St) :
    ((exec body c s).out = .ok → exec (.filterCtx bound p body) c s = exec body c s) ∧
    (∀ e, (exec body c s).out = .raised e → p.eval e = .accept →
        exec (.filterCtx bound p body) c s = ⟨(exec body c s).st, (exec body c s).ctx, .ok⟩) ∧
    (∀ e, (exec body c s).out = .raised e → p.eval e = .reject →
        exec (.filterCtx bound p body) c s = exec body c s) ∧
    (∀ e x, (exec body c s).out = .raised e → p.eval e = .raises x →
        (exec (.filterCtx bound p body) c s).out = .raised x ∧
        (exec (.filterCtx bound p body) c s).st.heap.tb x =
          [.scen, .filtExit, .pred] ++ (exec body c s).st.heap.tb x) := by
  refine ⟨?_, ?_, ?_, ?_⟩
  · intro h; simp only [exec, filterExit, h]
    generalize exec body c s = r at h; cases r; simp_all
  · intro e h hp; simp [exec, filterExit, callPred, lemma_mkFilter, h, hp]
  · intro e h hp; simp only [exec, filterExit, callPred, lemma_mkFilter, h, hp]
    generalize exec body c s = r at h; cases r; simp_all
  · intro e x h hp
    simp [exec, filterExit, callPred, lemma_mkFilter, h, hp, St.through, Heap.through, Heap.setTb]

/-- **The predicate's answer counts by its truth value**, whatever object it is (`True`, `1`, a match
    object, a non-empty tuple … accept; `False`, `0`, `None`, `''`, `[]` … reject). -/
theorem filter_accepts_iff_truthy (p : Pred) (e : ExcId) (h : p.raises.lookup e = none) :
    (p.eval e = .accept ↔ (p.value e).truthy = true) ∧ (p.eval e = .reject ↔ (p.value e).truthy = false) := by
  simp only [Pred.eval, h]
  cases (p.value e).truthy <;> simp

/-- **Both entry points of one filter agree**: `with filt: raise e` ends normally exactly when
    `filt(e)` (called while `e` is being handled) returns, namely when the predicate's answer for `e` is
    true — for every way of making the filter and every kind of answer object. -/
theorem filter_ctx_call_agree (form : FilterForm) (p : Pred) (e : ExcId) (c : Sre) (s : St) :
    ((exec (.filterCtx form p (.raiseNew e)) c s).out = .ok ↔ p.eval e = .accept) ∧
    ((exec (.handle e (.filterCall form p e)) c s).out = .ok ↔ p.eval e = .accept) := by
  constructor
  · simp only [exec, filterExit, callPred, lemma_mkFilter]
    cases p.eval e <;> simp
  · simp only [exec, filterCall, callPred, lemma_mkFilter]
    cases p.eval e <;> simp [St.active, St.through]

theorem filter_suppresses_iff (bound : FilterForm) (p : Pred) (body : Body) (c : Sre) (s : St) :
    (exec (.filterCtx bound p body) c s).out = .ok ↔
      ((exec body c s).out = .ok ∨ ∃ e, (exec body c s).out = .raised e ∧ p.eval e = .accept) := by
  simp only [exec, filterExit, callPred, lemma_mkFilter]
  cases h : (exec body c s).out with
  | ok => simp
  | raised e => cases hp : p.eval e <;> simp [hp]

/-- **filter_exact**, direct-call form `filt(ex)`: accepted → returns and changes nothing; rejected →
    raises `ex` itself, with its own traceback under the frames `__call__` and scenario (whether or
    not `ex` is the exception being handled); nothing else changes. -/
theorem filter_call_exact (bound : FilterForm) (p : Pred) (e : ExcId) (c : Sre) (s : St) :
    (p.eval e = .accept → exec (.filterCall bound p e) c s = ⟨s, c, .ok⟩) ∧
    (p.eval e = .reject →
        (exec (.filterCall bound p e) c s).out = .raised e ∧
        (exec (.filterCall bound p e) c s).st.heap.tb e = [.scen, .filtCall] ++ s.heap.tb e ∧
        (∀ i, i ≠ e → (exec (.filterCall bound p e) c s).st.heap.tb i = s.heap.tb i) ∧
        (exec (.filterCall bound p e) c s).st.log = s.log ∧
        (exec (.filterCall bound p e) c s).st.heap.next = s.heap.next) := by
  constructor
  · intro hp; simp [exec, filterCall, callPred, lemma_mkFilter, hp]
  · intro hp
    simp only [exec, filterCall, callPred, lemma_mkFilter, hp]
    by_cases ha : s.active = some e
    · simp [ha, St.activeTb, St.through, Heap.through, Heap.setTb]
      intro i hi; simp [hi]
    · simp [ha, St.through, Heap.through, Heap.setTb]
      intro i hi; simp [hi]

/-! ### remove_path_on_error -/

/-- the body completes: nothing is removed, nothing raised -/
theorem rpoe_body_completes_untouched (rm : RemoveFn) (body : Body) (c : Sre) (s : St)
    (h : (exec body c s).out = .ok) : exec (.rpoe rm body) c s = exec body c s := by
  simp [exec, h]

/-- `delete_if_exists` on anything but a directory leaves no directory entry behind: a regular file, an
    absent path, and a symbolic link to a file, to a directory, to nothing (dangling) or to itself are all
    gone afterwards, and nothing is raised -/
theorem delete_if_exists_removes (s : St) (h : s.path ≠ .dir) :
    (deleteIfExists s).2 = .ok ∧ (deleteIfExists s).1.path = .absent ∧
    (deleteIfExists s).1.heap = s.heap ∧ (deleteIfExists s).1.log = s.log ∧
    (deleteIfExists s).1.excInfo = s.excInfo := by
  unfold deleteIfExists
  cases hp : s.path with
  | dir => exact absurd hp h
  | absent => simp [hp]
  | file => simp
  | link t => simp

/-- **rpoe_removes_then_reraises.**  For every body that raises an `Exception` subclass instance `e`,
    with the default `remove` or a user function that delegates to `delete_if_exists` (path anything but
    a directory: regular file, absent, symbolic link to a file / a directory / nothing / itself), or a
    custom one that just returns: the path is removed (no directory entry left, for the first two) and
    `e` — the same object — is re-raised with every traceback, `e`'s included, exactly as it left the
    body; nothing is logged and no object is created. -/
theorem rpoe_removes_then_reraises (rm : RemoveFn) (body : Body) (c : Sre) (s : St) (e : ExcId)
    (hr : (exec body c s).out = .raised e)
    (hex : ((exec body c s).st.heap.cls e).isExc = true)
    (hrm : rm = .default ∨ rm = .wrapped ∨ rm = .noop)
    (hdir : rm ≠ .noop → (exec body c s).st.path ≠ .dir) :
    (exec (.rpoe rm body) c s).out = .raised e ∧
    (∀ i, (exec (.rpoe rm body) c s).st.heap.tb i = (exec body c s).st.heap.tb i) ∧
    (exec (.rpoe rm body) c s).st.log = (exec body c s).st.log ∧
    (exec (.rpoe rm body) c s).st.path = (if rm = .noop then (exec body c s).st.path else .absent) ∧
    (exec (.rpoe rm body) c s).st.heap.next = (exec body c s).st.heap.next ∧
    (exec (.rpoe rm body) c s).ctx = (exec body c s).ctx := by
  have hcls : ((exec body c s).st.through e .rpoeGen).heap.cls e = (exec body c s).st.heap.cls e := rfl
  simp only [exec, hr, rpoeExit, hcls, hex, if_true]
  generalize hs2 : ({ (exec body c s).st.through e .rpoeGen with
      excInfo := e :: ((exec body c s).st.through e .rpoeGen).excInfo } : St) = s2
  have hpath : s2.path = (exec body c s).st.path := by subst hs2; rfl
  have hact : s2.active = some e := by subst hs2; rfl
  have hen : enter (Sre.init true .library) s2 =
      ⟨true, some (s2.heap.cls e), some e, s2.heap.tb e, .library⟩ := by
    rw [lemma_enter_active_any _ s2 e hact]; rfl
  have htb : s2.heap.tb e = .rpoeGen :: (exec body c s).st.heap.tb e := by
    subst hs2; simp [St.through, Heap.through, Heap.setTb]
  have hoth : ∀ i, i ≠ e → s2.heap.tb i = (exec body c s).st.heap.tb i := by
    intro i hi; subst hs2; simp [St.through, Heap.through, Heap.setTb, hi]
  have hlog : s2.log = (exec body c s).st.log := by subst hs2; rfl
  have hnext : s2.heap.next = (exec body c s).st.heap.next := by subst hs2; rfl
  -- what `remove(path)` did: it returned, the heap and the log are as before, the path is as claimed
  have hrem : (callRemove rm s2).2 = .ok ∧ (callRemove rm s2).1.heap = s2.heap ∧
      (callRemove rm s2).1.log = s2.log ∧
      (callRemove rm s2).1.path = (if rm = .noop then (exec body c s).st.path else .absent) := by
    rcases hrm with rfl | rfl | rfl
    · have hd := delete_if_exists_removes s2 (by rw [hpath]; exact hdir (by simp))
      simp only [callRemove]
      exact ⟨hd.1, hd.2.2.1, hd.2.2.2.1, by simpa using hd.2.1⟩
    · have hd := delete_if_exists_removes s2 (by rw [hpath]; exact hdir (by simp))
      simp only [callRemove]
      generalize deleteIfExists s2 = d at hd ⊢
      obtain ⟨s1, o⟩ := d
      simp only at hd
      obtain ⟨rfl, h2, h3, h4, _⟩ := hd
      exact ⟨rfl, h3, h4, by simpa using h2⟩
    · simp [callRemove, hpath]
  generalize callRemove rm s2 = cr at hrem ⊢
  obtain ⟨s3, o3⟩ := cr
  simp only at hrem
  obtain ⟨rfl, hh, hl, hp⟩ := hrem
  simp only [removeOut, hen]
  have key := sre_exit_reraises_saved .rpoeGen
    ⟨true, some (s2.heap.cls e), some e, s2.heap.tb e, .library⟩ s3 e rfl rfl
  generalize exitSre .rpoeGen ⟨true, some (s2.heap.cls e), some e, s2.heap.tb e, .library⟩ s3 .ok = ex at key ⊢
  obtain ⟨s4, o4⟩ := ex
  simp only at key
  obtain ⟨rfl, k1, k2, k3, k4, k5, k6⟩ := key
  simp only [cmExit, St.through, Heap.through, Heap.setTb, if_true]
  refine ⟨trivial, ?_, ?_, ?_, ?_, trivial⟩
  · intro i
    by_cases hi : i = e
    · simp [hi]
    · simp [hi]; rw [k2 i hi, hh]; exact hoth i hi
  · simp [k3, hl, hlog]
  · simp [k4, hp]
  · simp [k5, hh, hnext]

/-- on a *directory* the default remover (and a delegating one) fails: the OSError it raises propagates,
    the original is logged once, the directory stays -/
theorem rpoe_directory_remove_fails (rm : RemoveFn) (body : Body) (c : Sre) (s : St) (e : ExcId)
    (hr : (exec body c s).out = .raised e)
    (hex : ((exec body c s).st.heap.cls e).isExc = true)
    (he : e < (exec body c s).st.heap.next)
    (hrm : rm = .default ∨ rm = .wrapped) (hdir : (exec body c s).st.path = .dir) :
    (exec (.rpoe rm body) c s).out = .raised (exec body c s).st.heap.next ∧
    (exec (.rpoe rm body) c s).st.heap.cls (exec body c s).st.heap.next = .osError ∧
    (exec (.rpoe rm body) c s).st.log =
      (exec body c s).st.log ++ [⟨some e, .rpoeGen :: (exec body c s).st.heap.tb e, .library⟩] ∧
    (exec (.rpoe rm body) c s).st.path = .dir := by
  have hcls : ((exec body c s).st.through e .rpoeGen).heap.cls e = (exec body c s).st.heap.cls e := rfl
  have hne : (exec body c s).st.heap.next ≠ e := fun h => by rw [h] at he; exact Nat.lt_irrefl _ he
  simp only [exec, hr, rpoeExit, hcls, hex, if_true]
  rcases hrm with rfl | rfl <;>
    simp [callRemove, deleteIfExists, hdir, St.through, removeOut, enter, capture, St.active, Sre.init, exitSre,
      cmExit, St.raiseFresh, Heap.alloc, Heap.through, Heap.setTb, hne]

/-- a failing `remove` (it raises `x`, not the original): `x` propagates and the original is logged
    once, with the traceback it had inside the generator -/
theorem rpoe_remove_failure_propagates (body : Body) (c : Sre) (s : St) (e x : ExcId)
    (hr : (exec body c s).out = .raised e)
    (hex : ((exec body c s).st.heap.cls e).isExc = true) (hx : x ≠ e) :
    (exec (.rpoe (.raises x) body) c s).out = .raised x ∧
    (exec (.rpoe (.raises x) body) c s).st.log =
      (exec body c s).st.log ++ [⟨some e, .rpoeGen :: (exec body c s).st.heap.tb e, .library⟩] ∧
    (exec (.rpoe (.raises x) body) c s).st.path = (exec body c s).st.path := by
  have hcls : ((exec body c s).st.through e .rpoeGen).heap.cls e = (exec body c s).st.heap.cls e := rfl
  simp only [exec, hr, rpoeExit, hcls, hex, if_true]
  simp [callRemove, removeOut, enter, capture, St.active, Sre.init, exitSre, cmExit, hx,
    St.through, Heap.through, Heap.setTb]

/-- **Proved negative (interpretation, see the harness ASSUMPTIONS).**  An exception that is not an
    `Exception` subclass (`except Exception` does not catch it) passes through `remove_path_on_error`
    as the same object with every traceback as it was — and the path is *not* removed, whatever
    `remove` is. -/
theorem rpoe_baseexception_passes_unremoved (rm : RemoveFn) (body : Body) (c : Sre) (s : St) (e : ExcId)
    (hr : (exec body c s).out = .raised e)
    (hex : ((exec body c s).st.heap.cls e).isExc = false) :
    (exec (.rpoe rm body) c s).out = .raised e ∧
    (∀ i, (exec (.rpoe rm body) c s).st.heap.tb i = (exec body c s).st.heap.tb i) ∧
    (exec (.rpoe rm body) c s).st.path = (exec body c s).st.path ∧
    (exec (.rpoe rm body) c s).st.log = (exec body c s).st.log := by
  have hcls : ((exec body c s).st.through e .rpoeGen).heap.cls e = (exec body c s).st.heap.cls e := rfl
  simp only [exec, hr, rpoeExit, hcls, hex]
  simp [cmExit, St.through, Heap.through, Heap.setTb]
  intro i; by_cases hi : i = e <;> simp [hi]

/-! ### raise_with_cause -/

/-- the cause is the exception being handled (or None when there is none) unless one is given;
    the new exception is a new object raised from `raise_with_cause` -/
theorem rwc_cause_is_active (explicit : Option (Option ExcId)) (c : Sre) (s : St) :
    (exec (.rwc explicit) c s).out = .raised s.heap.next ∧
    (exec (.rwc explicit) c s).st.heap.cause s.heap.next =
      (match explicit with
       | some given => given
       | none => s.active) ∧
    (exec (.rwc explicit) c s).st.heap.suppress s.heap.next = true ∧
    (exec (.rwc explicit) c s).st.heap.cls s.heap.next = .caused ∧
    (exec (.rwc explicit) c s).st.heap.tb s.heap.next = [.scen, .rwc] ∧
    (∀ i, i ≠ s.heap.next → (exec (.rwc explicit) c s).st.heap.tb i = s.heap.tb i) := by
  simp [exec, St.raiseFresh, Heap.alloc, St.through, Heap.through, Heap.setTb]
  refine ⟨rfl, ?_⟩
  intro i hi; simp [hi]

/-! ### non-vacuity: concrete instances of the hypotheses above -/

/-- E0 plain with a prior traceback, E1 needs constructor arguments, E2 is BaseException-only -/
def demoState : St :=
  ⟨⟨fun i => if i = 0 then .user 0 false true else if i = 1 then .user 1 true true else .user 2 false false,
    fun i => if i = 0 then [.prior 1, .prior 0] else [], fun i => if i = 0 then some 2 else none,
    fun i => i = 0, 3⟩, [], [], .file⟩

/-- a body that re-raises E0 itself and catches it, raises-and-catches E1 inside an inner handler with a
    nested context that is switched off, toggles the flag off and on again — no direct operation -/
def demoBody : Body :=
  .seq (.raiseCatch 0) (.seq (.handle 1 (.nest true (.setReraise false)))
    (.seq (.setReraise false) (.setReraise true)))

/-- the state inside `try: raise E0 / except:` -/
def demoHandling : St := { demoState.through 0 .scen with excInfo := [0] }

-- hypotheses of sre_reraises_same / sre_saved_invariant, and its conclusion on the concrete run
example :
    demoHandling.active = some 0 ∧ demoBody.direct = false ∧
    (exec demoBody (enter (Sre.init false) demoHandling) demoHandling).out = .ok ∧
    (exec demoBody (enter (Sre.init false) demoHandling) demoHandling).ctx.reraise = true ∧
    (exec demoBody (enter (Sre.init false) demoHandling) demoHandling).st.heap.tb 0
      = [.scen, .scen, .prior 1, .prior 0] ∧
    (exec (.nest false demoBody) (Sre.init true) demoHandling).out = .raised 0 ∧
    (exec (.nest false demoBody) (Sre.init true) demoHandling).st.heap.tb 0
      = [.scen, .sreExit, .sreForce, .scen, .prior 1, .prior 0] := by
  decide

-- sre_flag_off_silent: completes with the flag off
example :
    (exec (.setReraise false) (enter (Sre.init true) demoHandling) demoHandling).out = .ok ∧
    (exec (.setReraise false) (enter (Sre.init true) demoHandling) demoHandling).ctx.reraise = false := by
  decide

-- sre_body_raise_propagates / sre_body_raise_logs_original: the body raises E1, flag on
example :
    (exec (.seq (.raiseCatch 0) (.raiseNew 1)) (enter (Sre.init true) demoHandling) demoHandling).out = .raised 1 ∧
    (exec (.nest true (.seq (.raiseCatch 0) (.raiseNew 1))) (Sre.init true) demoHandling).st.log
      = [⟨some 0, [.scen, .prior 1, .prior 0], .scenario⟩] ∧
    (exec (.nest false (.seq (.raiseCatch 0) (.raiseNew 1))) (Sre.init true) demoHandling).st.log = [] := by
  decide

-- sre_capture_retargets / sre_capture_then_exit: capture inside an inner handler re-targets to E1
example :
    (run true (.handle 0 (.nest true (.handle 1 .capture))) demoState).out = .raised 1 ∧
    (run true (.handle 0 (.nest true (.handle 1 .capture))) demoState).st.heap.tb 1
      = [.scen, .sreExit, .sreForce, .scen] := by
  decide

-- sre_late_ops_see_saved / sre_late_force_reraises_saved / sre_late_force_after_except: the body re-raises
-- E0 and switches the flag off; the late force_reraise() gives E0 with the traceback saved at entry
example :
    (exec (.seq (.raiseCatch 0) (.setReraise false)) (enter (Sre.init true) demoHandling) demoHandling).out = .ok ∧
    (exec (.seq (.raiseCatch 0) (.setReraise false)) (enter (Sre.init true) demoHandling) demoHandling).ctx.reraise
      = false ∧
    (exec (.nestThen true (.seq (.raiseCatch 0) (.setReraise false)) (.forceReraise false)) (Sre.init true)
      demoHandling).out = .raised 0 ∧
    (exec (.nestThen true (.seq (.raiseCatch 0) (.setReraise false)) (.forceReraise false)) (Sre.init true)
      demoHandling).st.heap.tb 0 = [.scen, .sreForce, .scen, .prior 1, .prior 0] ∧
    (run true (.handleNestThen 0 false .nop (.forceReraise false)) demoState).out = .raised 0 ∧
    (run true (.handleNestThen 0 false .nop (.forceReraise false)) demoState).st.heap.tb 0
      = [.scen, .sreForce, .scen, .prior 1, .prior 0] ∧
    (run true (.handleNestThen 0 false .nop .capture) demoState).out = .raised 3 := by
  decide

-- sre_reuse_*: one context object used for two failures (the first re-raise is swallowed, as in a retry
-- loop): the second use re-raises E1, not E0 and not a new instance; after a first use with the flag
-- switched off the second use is silent; a raising second body logs E1
example :
    (run true (.seq (.swallow (.handle 0 (.enterCur .nop))) (.handle 1 (.enterCur .nop))) demoState).out
      = .raised 1 ∧
    (run true (.seq (.swallow (.handle 0 (.enterCur .nop))) (.handle 1 (.enterCur .nop))) demoState).st.heap.tb 1
      = [.scen, .sreExit, .sreForce, .scen] ∧
    (run true (.seq (.swallow (.handle 0 (.enterCur .nop))) (.handle 1 (.enterCur .nop))) demoState).st.heap.next
      = 3 ∧
    (run true (.seq (.handle 0 (.enterCur (.setReraise false))) (.handle 1 (.enterCur .nop))) demoState).out = .ok ∧
    (run true (.seq (.swallow (.handle 0 (.enterCur .nop))) (.handle 1 (.enterCur (.raiseNew 2)))) demoState).st.log
      = [⟨some 1, [.scen], .scenario⟩] := by
  decide

-- sre_capture_nothing_active / sre_force_raises_saved
example : demoState.active = none ∧ (run true (.handle 0 (.seq .capture (.forceReraise false))) demoState).out
    = .raised 0 := by
  decide

-- filter_exact: each of the four cases occurs
example :
    let p : Pred := ⟨[1], [(2, 0)], .matchObj, .list 0⟩
    p.eval 1 = .accept ∧ p.eval 0 = .reject ∧ p.eval 2 = .raises 0 ∧
    (run true (.filterCtx .method p (.raiseNew 1)) demoState).out = .ok ∧
    (run true (.filterCtx .func p (.raiseNew 0)) demoState).out = .raised 0 ∧
    (run true (.filterCtx (.classMethod true) p (.raiseNew 2)) demoState).out = .raised 0 ∧
    (run true (.handle 1 (.filterCall (.staticMethod false) p 0)) demoState).out = .raised 0 ∧
    (run true (.handle 1 (.filterCall .method p 0)) demoState).st.heap.tb 0
      = [.scen, .filtCall, .prior 1, .prior 0] := by
  decide

-- rpoe_removes_then_reraises (E0, Exception subclass, path is a file), rpoe_remove_failure_propagates,
-- rpoe_baseexception_passes_unremoved (E2)
example :
    (exec (.raiseNew 0) (Sre.init true) demoState).out = .raised 0 ∧
    ((exec (.raiseNew 0) (Sre.init true) demoState).st.heap.cls 0).isExc = true ∧
    (exec (.raiseNew 0) (Sre.init true) demoState).st.path ≠ .dir ∧
    (run true (.rpoe .default (.raiseNew 0)) demoState).out = .raised 0 ∧
    (run true (.rpoe .default (.raiseNew 0)) demoState).st.path = .absent ∧
    (run true (.rpoe (.raises 1) (.raiseNew 0)) demoState).out = .raised 1 ∧
    ((exec (.raiseNew 2) (Sre.init true) demoState).st.heap.cls 2).isExc = false ∧
    (run true (.rpoe .default (.raiseNew 2)) demoState).out = .raised 2 ∧
    (run true (.rpoe .default (.raiseNew 2)) demoState).st.path = .file ∧
    -- a dangling symbolic link is removed too, by the default remover and by a delegating one
    (run true (.rpoe .default (.raiseNew 0)) { demoState with path := .link .missing }).st.path = .absent ∧
    (run true (.rpoe .wrapped (.raiseNew 0)) { demoState with path := .link .loop }).st.path = .absent ∧
    (run true (.rpoe .wrapped (.raiseNew 0)) { demoState with path := .link .loop }).out = .raised 0 ∧
    -- rpoe_directory_remove_fails
    (run true (.rpoe .wrapped (.raiseNew 0)) { demoState with path := .dir }).out = .raised 3 ∧
    (run true (.rpoe .wrapped (.raiseNew 0)) { demoState with path := .dir }).st.heap.tb 3
      = [.scen, .cmExit, .rpoeGen, .removeFn, .delete] := by
  decide

end Oslo.Exc
