/-
VMDK, sparse-header mode: feeding a whole chunk list (InspectWrapper's discipline: an inspector that
raised is not fed again) from the initial state, by induction over the chunks with the step lemmas
of VmdkStep.lean.  Result: `VmdkOutcome` — the final state is a `vPost` or a `vErr` state whose
verdict-relevant content is a function of the concatenated bytes.
-/
import OsloProofs.Lemmas.VmdkStep
namespace Oslo.Insp

/-- what the footer end-capture region holds: the last 1536 bytes of the stream from the start of
    the chunk that created it (which lies before byte 64) -/
def FootInv (fd p : Bytes) : Prop := ∃ b, b < 64 ∧ b ≤ p.length ∧ fd = lastN 1536 (p.drop b)

theorem lemma_footInv_step (fd p c : Bytes) (h : FootInv fd p) : FootInv (lastN 1536 (fd ++ c)) (p ++ c) := by
  obtain ⟨b, hb, hbl, hfd⟩ := h
  refine ⟨b, hb, by rw [List.length_append]; omega, ?_⟩
  rw [hfd, lemma_lastN_lastN, List.drop_append_of_le_length hbl]

theorem lemma_vmdk_parse_append (q r : Bytes) (h : 64 ≤ q.length) :
    parseSparseHeader (q ++ r) 0 = parseSparseHeader q 0 := by
  have : slice (q ++ r) 0 (0 + Gen.vmdkMinSparseHeader) = slice q 0 (0 + Gen.vmdkMinSparseHeader) := by
    simp only [slice, Gen.vmdkMinSparseHeader, List.drop_zero]
    exact List.take_append_of_le_length (by omega)
  unfold parseSparseHeader
  rw [this]

section
variable (foot : Bool) (hd : Bytes) (dl : Nat) (H : SparseHeader)

/-- feeding from a post-relocation state: never raises, stays post-relocation -/
theorem lemma_post_feed (hp : parseSparseHeader hd 0 = .ok H) (hlen : 64 ≤ hd.length) (hok : HdrOK H)
    (hds : H.descSec * 512 = Gen.vmdkDescOffset) (hfoot : foot = decide (H.gdOffset = Gen.vmdkGdAtEnd))
    (chunks : List Bytes) : ∀ (p : Bytes) (fo : Nat) (fd : Bytes) (dt : Option Bytes) (vt : Bytes),
    FootInv fd p → DescSt (sliceOf p 512 dl) dl dt vt →
    ∃ fo' fd' dt' vt',
      feed (vPost foot p.length hd (sliceOf p 512 dl) dl fo fd false dt vt) chunks =
        (vPost foot (p ++ chunks.flatten).length hd (sliceOf (p ++ chunks.flatten) 512 dl) dl fo' fd' false dt' vt',
         none) ∧
      FootInv fd' (p ++ chunks.flatten) ∧ DescSt (sliceOf (p ++ chunks.flatten) 512 dl) dl dt' vt' := by
  induction chunks with
  | nil =>
    intro p fo fd dt vt hf hst
    exact ⟨fo, fd, dt, vt, by simp [feed], by simpa using hf, by simpa using hst⟩
  | cons c cs ih =>
    intro p fo fd dt vt hf hst
    obtain ⟨fo1, dt1, vt1, heat, hst1⟩ := lemma_post_step foot hd p c dl fo fd dt vt H hp hlen hok hds hfoot hst
    have hf1 := lemma_footInv_step fd p c hf
    rw [← List.length_append] at heat
    obtain ⟨fo2, fd2, dt2, vt2, hfeed, hf2, hst2⟩ := ih (p ++ c) fo1 _ dt1 vt1 hf1 hst1
    refine ⟨fo2, fd2, dt2, vt2, ?_, ?_, ?_⟩
    · simp only [feed, heat, List.flatten_cons, ← List.append_assoc]
      exact hfeed
    · simpa [List.append_assoc] using hf2
    · simpa [List.append_assoc] using hst2


/-- outcome of feeding a whole stream `s` in sparse-header mode -/
def VmdkOutcome (s : Bytes) (r : Insp × Option Err) : Prop :=
  (H.descSec * 512 = Gen.vmdkDescOffset ∧
    ∃ hd fo fd dt vt, r = (vPost foot s.length hd (sliceOf s 512 dl) dl fo fd false dt vt, none) ∧
      parseSparseHeader hd 0 = .ok H ∧ 64 ≤ hd.length ∧ FootInv fd s ∧ DescSt (sliceOf s 512 dl) dl dt vt) ∨
  (H.descSec * 512 ≠ Gen.vmdkDescOffset ∧
    ∃ n hd d0 dt, r = (vErr foot n hd d0 false dt, some .imageFormat) ∧
      parseSparseHeader hd 0 = .ok H ∧ 64 ≤ hd.length ∧ (vDesc0R d0).complete = true)

/-- feeding from a state in which fewer than 64 bytes have been streamed -/
theorem lemma_pre_feed (hok : HdrOK H) (hfoot : foot = decide (H.gdOffset = Gen.vmdkGdAtEnd))
    (hdl : dl = min (H.descNum * 512) Gen.vmdkDescMaxSize)
    (chunks : List Bytes) : ∀ (p d0 : Bytes) (dt : Option Bytes),
    p.length < 64 → PlainInv (vDesc0R d0) p → NulAt5 (p ++ chunks.flatten) → 64 ≤ (p ++ chunks.flatten).length →
    parseSparseHeader (p ++ chunks.flatten) 0 = .ok H →
    VmdkOutcome foot dl H (p ++ chunks.flatten) (feed (vPre p.length (sliceOf p 0 512) d0 dt) chunks) := by
  induction chunks with
  | nil =>
    intro p d0 dt h64 _ _ hge _
    simp at hge; omega
  | cons c cs ih =>
    intro p d0 dt h64 hinv h5 hge hpar
    have hassoc : p ++ (c :: cs).flatten = (p ++ c) ++ cs.flatten := by simp
    rw [hassoc] at h5 hge hpar ⊢
    by_cases hlt : (p ++ c).length < 64
    · obtain ⟨d0', dt', heat, hinv'⟩ := lemma_pre_step p c d0 dt hlt hinv
        (lemma_nulAt5_prefix (List.prefix_append _ _) h5)
      rw [← List.length_append] at heat
      simp only [feed, heat]
      exact ih (p ++ c) d0' dt' hlt hinv' h5 hge hpar
    · have hq64 : 64 ≤ (p ++ c).length := by omega
      have hpar' : parseSparseHeader (p ++ c) 0 = .ok H := by
        rw [← lemma_vmdk_parse_append (p ++ c) cs.flatten hq64]; exact hpar
      by_cases hds : H.descSec * 512 = Gen.vmdkDescOffset
      · obtain ⟨fo1, dt1, vt1, heat, hst1⟩ :=
          lemma_trans_step_ok foot p c d0 dl dt H h64 hq64 hinv hpar' hok hds hfoot hdl
        rw [← List.length_append] at heat
        have hf1 : FootInv (lastN 1536 c) (p ++ c) :=
          ⟨p.length, h64, by rw [List.length_append]; omega, by simp⟩
        have hhl : 64 ≤ (sliceOf (p ++ c) 0 512).length := by rw [lemma_sliceOf_length]; omega
        have hparh : parseSparseHeader (sliceOf (p ++ c) 0 512) 0 = .ok H := by
          rw [lemma_vmdk_parse_sliceOf0]; exact hpar'
        obtain ⟨fo2, fd2, dt2, vt2, hfeed, hf2, hst2⟩ :=
          lemma_post_feed foot (sliceOf (p ++ c) 0 512) dl H hparh hhl hok hds hfoot cs (p ++ c) fo1 _ dt1 vt1 hf1 hst1
        simp only [feed, heat]
        exact Or.inl ⟨hds, _, fo2, fd2, dt2, vt2, hfeed, hparh, hhl, hf2, hst2⟩
      · obtain ⟨d0', heat, hc⟩ := lemma_trans_step_err foot p c d0 dt H h64 hq64 hinv hpar' hok hds hfoot
        have hhl : 64 ≤ (sliceOf (p ++ c) 0 512).length := by rw [lemma_sliceOf_length]; omega
        have hparh : parseSparseHeader (sliceOf (p ++ c) 0 512) 0 = .ok H := by
          rw [lemma_vmdk_parse_sliceOf0]; exact hpar'
        simp only [feed, heat]
        exact Or.inr ⟨hds, _, _, d0', dt, rfl, hparh, hhl, hc⟩


/-- feeding chunks that together leave fewer than 64 bytes streamed: nothing but capture and,
    possibly, the (harmless) early parse happens -/
theorem lemma_pre_feed_short (chunks : List Bytes) : ∀ (p d0 : Bytes) (dt : Option Bytes),
    (p ++ chunks.flatten).length < 64 → PlainInv (vDesc0R d0) p → NulAt5 (p ++ chunks.flatten) →
    ∃ d0' dt', feed (vPre p.length (sliceOf p 0 512) d0 dt) chunks =
      (vPre (p ++ chunks.flatten).length (sliceOf (p ++ chunks.flatten) 0 512) d0' dt', none) := by
  induction chunks with
  | nil =>
    intro p d0 dt _ _ _
    exact ⟨d0, dt, by simp [feed]⟩
  | cons c cs ih =>
    intro p d0 dt hlt hinv h5
    have hassoc : p ++ (c :: cs).flatten = (p ++ c) ++ cs.flatten := by simp
    rw [hassoc] at hlt h5 ⊢
    have hlt' : (p ++ c).length < 64 := by
      rw [List.length_append] at hlt; omega
    obtain ⟨d0', dt', heat, hinv'⟩ := lemma_pre_step p c d0 dt hlt' hinv
      (lemma_nulAt5_prefix (List.prefix_append _ _) h5)
    rw [← List.length_append] at heat
    simp only [feed, heat]
    exact ih (p ++ c) d0' dt' hlt hinv' h5

/-- the freshly initialised VMDK inspector (over the generated region table) -/
theorem lemma_vmdk_init (s0 : Insp) (h0 : Insp.init .vmdk = some s0) :
    s0 = vPre ([] : Bytes).length (sliceOf [] 0 512) [] none := by
  unfold Insp.init at h0
  split at h0
  · simp at h0
  · simp only [Option.some.injEq] at h0
    subst h0
    rfl

theorem lemma_vmdk_plainInv_init : PlainInv (vDesc0R []) [] := by
  simp [PlainInv, vDesc0R, sliceOf]

/-- **the state after feeding any chunking of a sparse-header stream** -/
theorem lemma_vmdk_feed (hok : HdrOK H) (hfoot : foot = decide (H.gdOffset = Gen.vmdkGdAtEnd))
    (hdl : dl = min (H.descNum * 512) Gen.vmdkDescMaxSize)
    (s0 : Insp) (h0 : Insp.init .vmdk = some s0) (chunks : List Bytes)
    (h5 : NulAt5 chunks.flatten) (hge : 64 ≤ chunks.flatten.length)
    (hpar : parseSparseHeader chunks.flatten 0 = .ok H) :
    VmdkOutcome foot dl H chunks.flatten (feed s0 chunks) := by
  rw [lemma_vmdk_init s0 h0]
  have := lemma_pre_feed foot dl H hok hfoot hdl chunks [] [] none (by simp) lemma_vmdk_plainInv_init
    (by simpa using h5) (by simpa using hge) (by simpa using hpar)
  simpa using this

/-- … and the state while fewer than 64 bytes have been streamed -/
theorem lemma_vmdk_feed_short (s0 : Insp) (h0 : Insp.init .vmdk = some s0) (chunks : List Bytes)
    (h5 : NulAt5 chunks.flatten) (hlt : chunks.flatten.length < 64) :
    ∃ n hd d0 dt, feed s0 chunks = (vPre n hd d0 dt, none) := by
  rw [lemma_vmdk_init s0 h0]
  obtain ⟨d0', dt', h⟩ := lemma_pre_feed_short chunks [] [] none (by simpa using hlt) lemma_vmdk_plainInv_init
    (by simpa using h5)
  exact ⟨_, _, d0', dt', h⟩

end
end Oslo.Insp
