/-
C02 — the safety check is fail-closed.  Part 2: byte-level acceptance characterisations.
(Part 1, the generic gate, is `OsloProofs/Props/C02Gate.lean`.)

Every theorem here is about the state an inspector is in after *any* chunking of the stream
(`runChunks`), by composition with the chunk-independence theorems of C01.
-/
import OsloProofs.Lemmas.QcowCheck
namespace Oslo.Insp

/-- **qcow_accept_iff** — for every stream and every chunking, the qcow2 safety check returns
    normally iff the stream has 512 bytes, the magic, a zero backing-file offset, the data-file bit
    clear, and version 2, or version 3 with no incompatible-feature bit ≥ 4 set. -/
theorem qcow_accept_iff (s0 : Insp) (h0 : Insp.init .qcow2 = some s0) (chunks : List Bytes) :
    safetyCheck (runChunks s0 chunks).1 = .ok ↔ QcowSafe (sliceOf chunks.flatten 0 512) := by
  rw [run_qcow_eq_spec s0 h0]
  unfold Insp.init at h0
  split at h0
  · simp at h0
  · simp only [Option.some.injEq] at h0
    subst h0
    apply lemma_qcow_state_accept
    · rfl
    · rfl
    · exact registered_checks.1
    · rfl

/-- a qcow2 with a backing file is never accepted -/
theorem qcow_rejects_backing (s0 : Insp) (h0 : Insp.init .qcow2 = some s0) (chunks : List Bytes)
    (h : beNat (slice (sliceOf chunks.flatten 0 512) 8 16) ≠ 0) :
    safetyCheck (runChunks s0 chunks).1 ≠ .ok := by
  rw [Ne, qcow_accept_iff s0 h0]
  rintro ⟨_, _, hb, _⟩
  exact h hb

/-- a qcow2 with the external-data-file bit is never accepted -/
theorem qcow_rejects_datafile (s0 : Insp) (h0 : Insp.init .qcow2 = some s0) (chunks : List Bytes)
    (b : UInt8) (hb : (sliceOf chunks.flatten 0 512)[79]? = some b) (h : b.toNat &&& 4 ≠ 0) :
    safetyCheck (runChunks s0 chunks).1 ≠ .ok := by
  rw [Ne, qcow_accept_iff s0 h0]
  rintro ⟨_, _, _, hd, _⟩
  exact h (hd b hb)

/-- a version-3 qcow2 with *any* incompatible-feature bit in [4, 64) set is never accepted
    (bits numbered as in the 64-bit big-endian feature word) -/
theorem qcow_rejects_unknown_bit (s0 : Insp) (h0 : Insp.init .qcow2 = some s0) (chunks : List Bytes)
    (bit : Nat) (hbit : 4 ≤ bit)
    (hv : beNat (slice (sliceOf chunks.flatten 0 512) 4 8) = 3)
    (h : (beNat (slice (sliceOf chunks.flatten 0 512) 72 80)).testBit bit = true) :
    safetyCheck (runChunks s0 chunks).1 ≠ .ok := by
  rw [Ne, qcow_accept_iff s0 h0]
  rintro ⟨_, _, _, _, hver⟩
  rcases hver with h2 | ⟨_, hlt⟩
  · omega
  · have := Nat.ge_two_pow_of_testBit h
    have : 2 ^ 4 ≤ 2 ^ bit := Nat.pow_le_pow_right (by omega) hbit
    omega

/-- a qcow2 of any version other than 2 or 3 is never accepted -/
theorem qcow_rejects_version (s0 : Insp) (h0 : Insp.init .qcow2 = some s0) (chunks : List Bytes)
    (h2 : beNat (slice (sliceOf chunks.flatten 0 512) 4 8) ≠ 2)
    (h3 : beNat (slice (sliceOf chunks.flatten 0 512) 4 8) ≠ 3) :
    safetyCheck (runChunks s0 chunks).1 ≠ .ok := by
  rw [Ne, qcow_accept_iff s0 h0]
  rintro ⟨_, _, _, _, hver⟩
  rcases hver with h | ⟨h, _⟩
  · exact h2 h
  · exact h3 h

/-- a truncated qcow2 (fewer than 512 bytes) is never accepted -/
theorem qcow_rejects_truncated (s0 : Insp) (h0 : Insp.init .qcow2 = some s0) (chunks : List Bytes)
    (h : chunks.flatten.length < 512) : safetyCheck (runChunks s0 chunks).1 ≠ .ok := by
  rw [Ne, qcow_accept_iff s0 h0]
  rintro ⟨hl, _⟩
  rw [lemma_sliceOf_length] at hl
  omega

/-- **qed_never_accepted** — whatever the bytes and the chunking -/
theorem qed_never_accepted (s0 : Insp) (h0 : Insp.init .qed = some s0) (chunks : List Bytes) :
    safetyCheck (runChunks s0 chunks).1 ≠ .ok := by
  intro h
  have := (safety_ok_imp _ h).2.2 "banned" (by
    rw [run_plain_eq_spec .qed rfl s0 h0]
    unfold Insp.init at h0
    split at h0
    · simp at h0
    · simp only [Option.some.injEq] at h0
      subst h0
      exact List.mem_of_elem_eq_true rfl)
  simp [runCheck] at this

/-- **null_check_accept_iff** — raw, vhd, vhdx, vdi, iso register only the null check: acceptance is
    exactly completeness plus format match (any reachable state) -/
theorem null_check_accept_iff (s : Insp) (h : s.checks = ["null"]) :
    safetyCheck s = .ok ↔ (s.complete = true ∧ formatMatch s = .ok true) := by
  rw [safety_ok_iff, h]
  simp [runCheck]

/-- **cli_exit_zero_iff** — the command-line checker exits 0 only when detection succeeded and the
    detected inspector's safety check returned normally -/
theorem cli_exit_zero_iff (content : Bytes) :
    cliExit content = 0 ↔ ∃ i, detectFileFormat content = .ok i ∧ safetyCheck i = .ok ∧
                               (virtualSize i).isOk = true := by
  unfold cliExit
  cases hd : detectFileFormat content with
  | error e => simp
  | ok i =>
    cases hs : safetyCheck i <;> cases hv : virtualSize i <;>
      simp [hs, hv, Except.isOk, Except.toBool]

/-- the exit status is 0, 1 or 2, and 1 exactly for a detected image whose safety check **failed**
    (SafetyCheckFailed) while its virtual size could be computed; anything unexpected is 2, never 0 -/
theorem cli_exit_one_iff (content : Bytes) :
    cliExit content ≤ 2 ∧
    (cliExit content = 1 ↔ ∃ i r, detectFileFormat content = .ok i ∧ safetyCheck i = .failed r ∧
                                   (virtualSize i).isOk = true) := by
  unfold cliExit
  cases hd : detectFileFormat content with
  | error e => simp
  | ok i =>
    cases hs : safetyCheck i <;> cases hv : virtualSize i <;>
      simp [hs, hv, Except.isOk, Except.toBool]

/-- fail-closed at the command line: a detection error or a failing safety check never gives exit 0 -/
theorem cli_exit_nonzero_of_failure (content : Bytes) :
    (∀ e, detectFileFormat content = .error e → cliExit content = 2) ∧
    (∀ i, detectFileFormat content = .ok i → safetyCheck i ≠ .ok → cliExit content ≠ 0) := by
  refine ⟨fun e he => by simp [cliExit, he], fun i hi hs h0 => ?_⟩
  obtain ⟨j, hj, hok, _⟩ := (cli_exit_zero_iff content).1 h0
  rw [hi] at hj
  cases hj
  exact hs hok

/-! non-vacuity -/
example : ∃ s, Insp.init .qcow2 = some s := ⟨_, rfl⟩

end Oslo.Insp
