"""C13 - StopWatch obeys its state machine under every call sequence."""
import zlib
import itertools
from fractions import Fraction

import common
import whitebox
from common import Disagreement, Failure, req

ID = 'C13'
DRIVER = 'drv_C13'
PROOF_MODULES = ['OsloProofs.Props.C13']
LEVEL = 'proof'
RULE = ('call sequences over the 13-method alphabet (exhaustive up to a length, then random long ones) x '
        'durations x scripted integer clocks; a case is non-trivial when the sequence contains at least one '
        'effective start and one value-returning call; distinct by (duration, clock, ops)')
TRUSTED_BASE = [
    'Lean 4 kernel; axioms audited per theorem (subset of propext, Classical.choice, Quot.sound)',
    'hand-written model OsloModel/StopWatch.lean, tied to timeutils.StopWatch by this correspondence',
    'clock values are integers (exact in binary64); float rounding of real monotonic readings is not modelled',
]
UNMODELLED = ['binary64 rounding of non-integer clock readings', 'thread interleavings on a shared watch']
ASSUMPTIONS = ['timeutils.now is the only clock the watch reads (checked: the scripted clock counts its reads)']

BASE_OPS = ['start', 'stop', 'resume', 'restart', 'split', 'elapsed:N', 'elapsed:7', 'elapsed:0', 'leftover:0',
            'leftover:1', 'expired', 'splits']
# `exit:T` leaves the context manager with an exception of type T in flight (the with-statement
# protocol: __exit__(type, value, traceback)); the watch must be stopped whatever the exception
EXIT_KINDS = ['KeyboardInterrupt', 'SystemExit', 'GeneratorExit', 'ValueError', 'RuntimeError', 'BaseX']
# `elapsedk` / `leftoverk`: the same calls with the optional argument passed BY KEYWORD (the pinned
# signatures are elapsed(self, maximum=None) and leftover(self, return_none=False))
ALL_OPS = BASE_OPS + ['has_started', 'has_stopped', 'enter', 'exit', 'elapsed:-3', 'elapsed:1000', 'elapsed:-0',
                      'elapsedk:N', 'elapsedk:7', 'elapsedk:0', 'leftoverk:0', 'leftoverk:1'] \
    + ['exit:' + k for k in EXIT_KINDS]
KW_ALIAS = {'elapsedk': 'elapsed', 'leftoverk': 'leftover'}


class BaseX(BaseException):
    pass


def exc_class(name):
    return BaseX if name == 'BaseX' else getattr(__import__('builtins'), name)
DURATIONS = [None, 0, 5, 10 ** 6]


def clock_patterns(n, rng):
    big = 10 ** 9
    return {
        'zero': [0] * n,
        'tiny': list(range(n)),
        'large': [big * i + 3 for i in range(n)],
        'backwards': [100 - 7 * i for i in range(n)],
        'random-mono': sorted(rng.randrange(0, 50) for _ in range(n)),
    }


class Clock:
    def __init__(self, readings):
        self.readings = readings
        self.i = 0

    def __call__(self):
        v = self.readings[self.i] if self.i < len(self.readings) else 0
        self.i += 1
        return v


def fmt_num(v):
    f = Fraction(v)
    return str(f.numerator) if f.denominator == 1 else str(f)


def fmt_split(s):
    return '%s:%s' % (fmt_num(s.elapsed), fmt_num(s.length))


def impl_state(w, clock):
    st, started, stopped, splits, _ = whitebox.watch_view().snapshot(w)
    return 'state=%s started=%s stopped=%s splits=%s reads=%d' % (
        st, 'N' if started is None else fmt_num(started),
        'N' if stopped is None else fmt_num(stopped),
        '|'.join(fmt_split(s) for s in splits), clock.i)


def call(w, op):
    name, _, arg = op.partition(':')
    if name == 'elapsed':
        return w.elapsed(None if arg == 'N' else (-0.0 if arg == '-0' else int(arg)))
    if name == 'elapsedk':
        return w.elapsed(maximum=None if arg == 'N' else int(arg))
    if name == 'leftover':
        return w.leftover(arg == '1')
    if name == 'leftoverk':
        return w.leftover(return_none=(arg == '1'))
    if name == 'splits':
        return w.splits
    if name == 'enter':
        return w.__enter__()
    if name == 'exit':
        if not arg:
            r = w.__exit__(None, None, None)
        else:
            try:
                raise exc_class(arg)('in the with block')
            except BaseException as e:
                r = w.__exit__(type(e), e, e.__traceback__)
        # the property says nothing about the value; only whether the exception would be swallowed
        return 'swallowed' if r else None
    return getattr(w, name)()


def run_impl(duration, clock_list, ops):
    """Run the real StopWatch; returns (outs, state string, trace for the oracle)."""
    from oslo_utils import timeutils
    clock = Clock(clock_list)
    saved = timeutils.now
    # the clock is the module-level hook `timeutils.now`, looked up at the time of each call: the hook
    # is installed before the watch exists (mode 0), only after it was built under another clock
    # (mode 1), or re-installed as a fresh callable before every call (mode 2) -- same readings each way
    mode = zlib.crc32(repr((duration, list(ops))).encode()) % 3
    timeutils.now = clock if mode == 0 else Clock([10 ** 9 + 7 * k for k in range(64)])
    outs, trace = [], []
    try:
        # both call forms of the constructor (pinned signature: StopWatch(duration=None))
        w = timeutils.StopWatch(duration) if len(ops) % 2 else timeutils.StopWatch(duration=duration)
        timeutils.now = clock
        view = whitebox.watch_view()
        for op in ops:
            if mode == 2:
                timeutils.now = (lambda c=clock: c())
            before = view.snapshot(w)
            i0 = clock.i
            try:
                r = call(w, op)
            except RuntimeError:
                o = 'RuntimeError'
                r = RuntimeError
            except Exception as e:   # anything else is reported verbatim
                o = type(e).__name__
                r = e
            else:
                if r is w:
                    o = 'self'
                elif r is None:
                    o = 'none'
                elif r == 'swallowed':
                    o = 'swallowed'
                elif isinstance(r, bool):
                    o = 'bool:%d' % r
                elif isinstance(r, timeutils.Split):
                    o = 'split:' + fmt_split(r)
                elif isinstance(r, tuple):
                    o = 'splits:' + '|'.join(fmt_split(s) for s in r)
                else:
                    o = 'num:' + fmt_num(r)
            outs.append(o)
            after = view.snapshot(w)
            # the reads the call made; if it made none, the value it would have read (a call may answer
            # without the clock where the answer does not depend on it)
            reads = clock_list[i0:clock.i] or [clock_list[min(i0, len(clock_list) - 1)]]
            trace.append((op, r, before, after, reads, clock.i - i0))
        return outs, impl_state(w, clock), trace
    finally:
        timeutils.now = saved


def case_line(duration, clock_list, ops):
    model_ops = ['exit' if o.startswith('exit:') else ('elapsed:0' if o == 'elapsed:-0' else o) for o in ops]
    model_ops = [KW_ALIAS[o.partition(':')[0]] + ':' + o.partition(':')[2] if o.partition(':')[0] in KW_ALIAS else o
                 for o in model_ops]
    return req('run', 'N' if duration is None else duration,
               ','.join(map(str, clock_list)) or '-', ','.join(model_ops) or '-')


def gen_cases(ctx):
    rng = ctx.rng
    maxlen = 3 if ctx.quick else 5
    deep = 4 if ctx.quick else 6
    for n in range(0, maxlen + 1):
        for ops in itertools.product(BASE_OPS, repeat=n):
            for d in DURATIONS:
                for cname, clk in clock_patterns(2 * n + 2, rng).items():
                    yield d, clk, list(ops), 'exh<=%d/%s' % (maxlen, cname)
    # one more level for a single duration / two clocks
    for ops in itertools.product(BASE_OPS, repeat=deep) if ctx.quick else \
            (tuple(rng.choice(BASE_OPS) for _ in range(deep)) for _ in range(300000)):
        clk = clock_patterns(2 * deep + 2, rng)
        yield 5, clk['tiny'], list(ops), 'len%d/tiny' % deep
    for _ in range(1500 if ctx.quick else 40000):
        n = rng.randrange(5, 40)
        ops = [rng.choice(ALL_OPS) for _ in range(n)]
        pats = clock_patterns(2 * n + 2, rng)
        cname = rng.choice(sorted(pats))
        yield rng.choice(DURATIONS + [rng.randrange(0, 60)]), pats[cname], ops, 'random-long/' + cname


def correspondence(ctx):
    cases, lines = [], []
    for d, clk, ops, tag in gen_cases(ctx):
        cases.append((d, clk, ops, tag))
        lines.append(case_line(d, clk, ops))
    replies = ctx.driver.ask_many(lines)
    out = []
    for (d, clk, ops, tag), rep in zip(cases, replies):
        ctx.evaluations += 1
        ctx.count('corr/' + tag)
        outs, st, _ = run_impl(d, clk, ops)
        impl = ';'.join(outs) + '\t' + st
        for o in outs:
            ctx.count('out/' + o.split(':')[0])
        if any(o in ('self',) for o in outs) and any(o.startswith(('num', 'split:', 'bool')) for o in outs):
            ctx.nontrivial((d, tuple(clk), tuple(ops)))
        ctx.sample({'duration': d, 'clock': clk, 'ops': ops, 'implementation': impl}, 4)
        if impl != rep:
            out.append(Disagreement({'duration': d, 'clock': clk, 'ops': ops}, impl, rep))
    ctx.exhaustive = True
    return out


# --------------------------------------------------------------------------
# failing-input search: the property stated directly on the real object

def oracle(duration, clock_list, ops):
    """Returns a description of the first way the property fails, or None."""
    monotone = all(a <= b for a, b in zip(clock_list, clock_list[1:]))
    outs, st, trace = run_impl(duration, clock_list, ops)
    last_start = None       # clock reading taken by the last effective (re)start
    stop_at = None
    for k, (op, r, before, after, reads, nreads) in enumerate(trace):
        name = op.partition(':')[0]
        name = KW_ALIAS.get(name, name)
        state0, state1 = before[0], after[0]
        if isinstance(r, Exception):
            return 'call %d (%s) raised %s' % (k, op, type(r).__name__)
        if r is RuntimeError:
            if before != after:
                return 'call %d (%s) raised RuntimeError and changed the watch' % (k, op)
            legal = {'stop': state0 is not None, 'resume': state0 == 'STOPPED', 'split': state0 == 'STARTED',
                     'elapsed': state0 is not None, 'expired': state0 is not None,
                     'leftover': state0 == 'STARTED' and (duration is not None or op.endswith(':1'))}
            if legal.get(name, True):
                return 'call %d (%s) is legal in state %s but raised RuntimeError' % (k, op, state0)
            continue
        illegal = {'stop': state0 is None, 'resume': state0 != 'STOPPED', 'split': state0 != 'STARTED',
                   'elapsed': state0 is None, 'expired': state0 is None,
                   'leftover': state0 != 'STARTED' or (duration is None and op.endswith(':0'))}
        if illegal.get(name, False):
            return 'call %d (%s) is illegal in state %s but returned' % (k, op, state0)
        if r == 'swallowed':
            return 'call %d (%s): __exit__ returned a true value (the exception would be swallowed)' % (k, op)
        if name == 'exit' and state1 == 'STARTED':
            return 'call %d (%s): the watch is still running after leaving the with block' % (k, op)
        if name in ('start', 'enter') and state0 == 'STARTED':
            # starting (or entering the with block of) a running watch is a no-op: elapsed keeps being
            # measured from the last (re)start and the splits stay
            if after != before:
                return 'call %d (%s) on a running watch changed it (%r -> %r)' % (k, op, before[:4], after[:4])
        elif name in ('start', 'enter', 'restart'):
            if not nreads:
                return 'call %d (%s) (re)started the watch without reading the clock' % (k, op)
            last_start = reads[-1]
            stop_at = None
            if state1 != 'STARTED':
                return 'call %d (%s) did not leave the watch running' % (k, op)
            if after[1] != last_start:
                return 'call %d (%s): start time %r is not the clock reading %r' % (k, op, after[1], last_start)
            if after[3] != ():
                return 'call %d (%s) (re)started the watch without clearing the splits' % (k, op)
        if name in ('stop', 'exit') and state0 == 'STARTED':
            stop_at = reads[-1]
        if name == 'elapsed':
            m = op.partition(':')[2]
            if r < 0:
                return 'call %d: elapsed %s is negative' % (k, r)
            expect = max(0, (reads[-1] if state0 == 'STARTED' else stop_at) - last_start)
            if m != 'N' and expect > int(m):
                expect = max(0, int(m))
            if r != expect:
                return 'call %d (%s): elapsed %s but clock distance is %s' % (k, op, r, expect)
        if name == 'leftover' and r is not None:
            e = max(0, reads[-1] - last_start)
            if r != max(0, duration - e):
                return 'call %d: leftover %s, expected %s' % (k, r, max(0, duration - e))
        if name == 'expired':
            if duration is None:
                want = False
            else:
                e = max(0, (reads[-1] if state0 == 'STARTED' else stop_at) - last_start)
                want = e > duration
            if r is not want:
                return 'call %d: expired %s, expected %s' % (k, r, want)
        if name == 'split':
            prev = before[3]
            e = max(0, reads[-1] - last_start)
            if r.elapsed != e:
                return 'call %d: split elapsed %s, clock distance %s' % (k, r.elapsed, e)
            if monotone:
                base = prev[-1].elapsed if prev else 0
                if r.elapsed < base or r.length != r.elapsed - base:
                    return 'call %d: split %s after %s is not the successive difference' % (k, fmt_split(r), base)
            if after[3] != prev + (r,):
                return 'call %d: splits not extended by the new split' % k
        elif name not in ('start', 'enter', 'restart') and after[3] != before[3]:
            return 'call %d (%s) changed the splits' % (k, op)
    return None


COPY_KINDS = ['copy', 'deepcopy', 'pickle']


def clone_watch(w, kind):
    import copy
    import pickle
    if kind == 'copy':
        return copy.copy(w)
    if kind == 'deepcopy':
        return copy.deepcopy(w)
    return pickle.loads(pickle.dumps(w))


def _canon(snap):
    # Split objects have no __eq__: compare them by value
    return (snap[0], snap[1], snap[2], tuple((x.elapsed, x.length) for x in snap[3]), snap[4])


def _run_ops(w, ops, clock, view, others=()):
    """apply ops to w; returns (outs, why) where why names an op that changed one of `others`"""
    from oslo_utils import timeutils
    outs = []
    for k, op in enumerate(ops):
        snap = [_canon(view.snapshot(o)) for o in others]
        try:
            r = call(w, op)
            o = 'self' if r is w else ('split:' + fmt_split(r) if isinstance(r, timeutils.Split) else
                                        ('splits:' + '|'.join(fmt_split(x) for x in r) if isinstance(r, tuple)
                                         else repr(r)))
        except RuntimeError:
            o = 'RuntimeError'
        except Exception as e:
            o = type(e).__name__
        outs.append(o)
        for j, (o2, s0) in enumerate(zip(others, snap)):
            if _canon(view.snapshot(o2)) != s0:
                return outs, 'call %d (%s) on one watch changed ANOTHER watch (%r -> %r)' % (
                    k, op, s0[:4], _canon(view.snapshot(o2))[:4])
    return outs, None


def copy_oracle(duration, clock_list, ops_a, kind, ops_b):
    """A watch copied half-way (copy / deepcopy / pickle round trip): the copy continues exactly like a
    watch with the same history, and nothing done to the copy shows on the original (and vice versa)."""
    from oslo_utils import timeutils
    saved = timeutils.now
    view = whitebox.watch_view()
    try:
        # reference: one watch, the whole sequence
        clock = Clock(clock_list)
        timeutils.now = clock
        ref = timeutils.StopWatch(duration)
        outs_ref, _ = _run_ops(ref, list(ops_a) + list(ops_b), clock, view)
        # original + copy
        clock = Clock(clock_list)
        timeutils.now = clock
        a = timeutils.StopWatch(duration)
        outs_a, _ = _run_ops(a, ops_a, clock, view)
        b = clone_watch(a, kind)
        if _canon(view.snapshot(b)) != _canon(view.snapshot(a)):
            return '%s of a used watch differs from it: %r vs %r' % (kind, _canon(view.snapshot(b))[:4], _canon(view.snapshot(a))[:4])
        outs_b, why = _run_ops(b, ops_b, clock, view, others=[a])
        if why:
            return why + ' [the other watch is the original, this one its %s]' % kind
        if outs_a + outs_b != outs_ref:
            return 'the %s continued differently from a watch with the same history: %r vs %r' % (
                kind, outs_b, outs_ref[len(outs_a):])
        # and the original is not affected by what happened to the copy: continue it, copy must stay put
        _, why = _run_ops(a, ['split', 'restart', 'split', 'stop'], clock, view, others=[b])
        if why:
            return why + ' [the other watch is the %s, this one the original]' % kind
        return None
    finally:
        timeutils.now = saved


def search(ctx, seeds, full=False):
    rng = ctx.rng
    fails = []
    todo = [(s['duration'], s['clock'], s['ops']) for s in seeds[:200]]
    n = (20000 if full else 3000) if ctx.quick else (300000 if full else 60000)
    for _ in range(n):
        ln = rng.randrange(1, 9) if rng.random() < 0.7 else rng.randrange(9, 40)
        ops = [rng.choice(ALL_OPS) for _ in range(ln)]
        pats = clock_patterns(2 * ln + 2, rng)
        todo.append((rng.choice(DURATIONS + [rng.randrange(0, 60)]), pats[rng.choice(sorted(pats))], ops))
    # copies of a half-used watch (copy / deepcopy / pickle): independence and faithful continuation
    ncopy = (3000 if full else 600) if ctx.quick else 30000
    for _ in range(ncopy):
        la, lb = rng.randrange(0, 6), rng.randrange(1, 7)
        ops_a = [rng.choice(BASE_OPS) for _ in range(la)]
        ops_b = [rng.choice(BASE_OPS) for _ in range(lb)]
        pats = clock_patterns(2 * (la + lb) + 12, rng)
        d, clk, kind = rng.choice(DURATIONS), pats[rng.choice(sorted(pats))], rng.choice(COPY_KINDS)
        ctx.evaluations += 1
        ctx.count('search/copy/' + kind)
        why = copy_oracle(d, clk, ops_a, kind, ops_b)
        if why and not any(f.detail.get('kind') == 'copy' for f in fails):
            sa = common.shrink_list(ops_a, lambda sub: copy_oracle(d, clk, sub, kind, ops_b) is not None)
            sb = common.shrink_list(ops_b, lambda sub: copy_oracle(d, clk, sa, kind, sub) is not None)
            fails.append(Failure({'duration': d, 'clock': clk, 'ops': sa, 'copy': kind, 'ops_copy': sb},
                                 {'kind': 'copy', 'what': copy_oracle(d, clk, sa, kind, sb)}))
    for d, clk, ops in todo:
        ctx.evaluations += 1
        why = oracle(d, clk, ops)
        if why:
            def still(sub):
                return oracle(d, clk, sub) is not None
            small = common.shrink_list(ops, still)
            fails.append(Failure({'duration': d, 'clock': clk, 'ops': small},
                                 {'kind': why.split(':')[0].split(' (')[-1][:40], 'what': oracle(d, clk, small)}))
            if len(fails) >= 5:
                break
    return fails


def replay(ctx, payload):
    case = payload.get('failure', {}).get('case') or payload.get('case')
    if not case:
        print('nothing to replay: this file names the obligation that no longer checks:')
        print(payload.get('no_longer_checks'))
        return 0
    d, clk, ops = case['duration'], case['clock'], case['ops']
    if case.get('copy'):
        why = copy_oracle(d, clk, ops, case['copy'], case['ops_copy'])
        print('watch after %r, then %s, then on the copy %r' % (ops, case['copy'], case['ops_copy']))
        print('oracle:', why or 'the property holds on this case')
        return 1 if why else 0
    outs, st, _ = run_impl(d, clk, ops)
    print('implementation:', ';'.join(outs), st)
    print('model         :', ctx.driver.ask(case_line(d, clk, ops)))
    print('property oracle on the implementation:', oracle(d, clk, ops))
    return 1 if oracle(d, clk, ops) else 0


LEVEL_TEXT = ('Machine-checked proof (Lean 4) over a hand-written model of StopWatch, for every call sequence, clock and '
              'duration: non-negative elapsed, elapsed = clock distance from the last (re)start (to now / to the stop '
              'instant), maximum honoured, leftover/expired formulas, illegal calls raise and leave the watch unchanged, '
              'splits form a non-decreasing chain of successive differences under a monotone clock and are cleared by a '
              '(re)start. All clauses full strength. The model is tied to the code by an exhaustive small-scope plus '
              'random differential correspondence on every run.')
LEVEL_NOTE = ('Trusted: Lean kernel; axioms propext/Quot.sound only (audited each run); the hand model and the '
              'correspondence harness; integer clock readings (binary64 rounding of real readings not modelled).')
TECHNIQUE = 'Lean 4 theorems by induction over the call list + model/implementation correspondence'
DESIGN_REF = 'DESIGN.md section 5, C13'
