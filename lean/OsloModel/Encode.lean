/-
Model of oslo_utils.encodeutils (encodeutils.py:21-114): safe_decode, safe_encode, to_utf8.

A Python value is `str | bytes | anything else`.  Text is `List Char` (Lean's `Char` is a
Unicode scalar value, so text is surrogate-free — the domain the property names); bytes are
`List UInt8`.  The codec machinery (`bytes.decode(name, errors)`, `str.encode(name, errors)`)
is a parameter `Codecs`: the table is looked up with the *name exactly as the code passes it*
(the code lower-cases some names itself, see `safeEncode`) and the error policy is passed
through untouched.  The locale (`sys.stdin.encoding`, `sys.getdefaultencoding()`) is a
parameter `Env`.

The second half of the file is one concrete table, `real`, with codecs implemented here
(utf-8 incl. 4-byte forms and CPython's "maximal subpart" error ranges, latin-1, ascii, the
three error policies) — it is what the driver runs and the correspondence compares with
CPython's codecs on real bytes.
-/
namespace Oslo.Encode

abbrev Text := List Char
abbrev Bytes := List UInt8
abbrev Name := List Char

/-- the concrete class of a text argument: exactly `str` / `bytes`, or a proper subclass of it
    (oslo_i18n `Message`, a `str`-mixin `Enum` member, a tagged `bytes` type, …).  The code tests
    `isinstance`, so no function below looks at it; it is carried so that the theorems say
    "for every instance of `str`", not "for every exact `str`". -/
inductive Cls | exact | sub
  deriving DecidableEq, Repr

/-- a Python argument value, as far as `isinstance(text, (str, bytes))` can tell: an instance of
    `str` (of class `k`) with its character content, an instance of `bytes` with its byte content,
    or anything else (`None`, `int`, `bytearray`, `memoryview`, `UserString`, …) -/
inductive Val
  | str (k : Cls) (t : Text)
  | bytes (k : Cls) (b : Bytes)
  | other
  deriving DecidableEq, Repr

inductive Err
  | typeError
  | unicodeDecodeError
  | unicodeEncodeError
  | lookupError
  deriving DecidableEq, Repr

/-- the `errors=` argument -/
inductive Policy | strict | ignore | replace
  deriving DecidableEq, Repr

/-- `bytes.decode(name, errors)` / `str.encode(name, errors)` -/
structure Codecs where
  encode : Name → Policy → Text → Except Err Bytes
  decode : Name → Policy → Bytes → Except Err Text

/-- `getattr(sys.stdin, 'encoding', None)` and `sys.getdefaultencoding()` -/
structure Env where
  stdinEnc : Option Name
  defaultEnc : Name

/-- `str.lower()` on an ASCII character (domain of the model: ASCII codec names, ASCII slug text) -/
def lowerAscii (c : Char) : Char :=
  if 65 ≤ c.toNat ∧ c.toNat ≤ 90 then Char.ofNat (c.toNat + 32) else c

def lowerName (n : Name) : Name := n.map lowerAscii

def utf8Name : Name := "utf-8".toList

/-- `if not incoming: incoming = (getattr(sys.stdin, 'encoding', None) or sys.getdefaultencoding())`
    (encodeutils.py:38-40, 81-83).  `None` and `''` are the falsy names. -/
def resolve (env : Env) (incoming : Option Name) : Name :=
  match incoming with
  | some (c :: cs) => c :: cs
  | _ =>
    match env.stdinEnc with
    | some (c :: cs) => c :: cs
    | _ => env.defaultEnc

/-- `safe_decode(text, incoming, errors)` (encodeutils.py:21-57) -/
def safeDecode (C : Codecs) (env : Env) (v : Val) (incoming : Option Name) (p : Policy) :
    Except Err Text :=
  match v with
  | .other => .error .typeError                       -- line 32-33
  | .str _ t => .ok t                                 -- line 35-36 (isinstance: any class)
  | .bytes _ b =>
    match C.decode (resolve env incoming) p b with    -- line 43
    | .error .unicodeDecodeError => C.decode utf8Name p b   -- line 44, 57
    | r => r

/-- `safe_encode(text, incoming, encoding, errors)` (encodeutils.py:60-98) -/
def safeEncode (C : Codecs) (env : Env) (v : Val) (incoming : Option Name) (encoding : Name)
    (p : Policy) : Except Err Bytes :=
  match v with
  | .other => .error .typeError                       -- line 78-79
  | .str _ t => C.encode (lowerName encoding) p t     -- line 91-92 (name lower-cased at 88-89)
  | .bytes k b =>
    let inc := lowerName (resolve env incoming)       -- line 81-87
    let enc := lowerName encoding                     -- line 88-89
    if b ≠ [] ∧ enc ≠ inc then                        -- line 93
      match safeDecode C env (.bytes k b) (some inc) p with   -- line 95
      | .ok t => C.encode enc p t                     -- line 96
      | .error e => .error e
    else .ok b                                        -- line 97-98

/-- `to_utf8(text)` (encodeutils.py:101-114) -/
def toUtf8 (C : Codecs) (v : Val) : Except Err Bytes :=
  match v with
  | .bytes _ b => .ok b                               -- line 108: isinstance(text, bytes)
  | .str _ t => C.encode utf8Name .strict t           -- line 110: isinstance(text, str)
  | .other => .error .typeError

/-! ## The public signatures: optional parameters and their defaults

    safe_decode(text, incoming=None, errors='strict')
    safe_encode(text, incoming=None, encoding='utf-8', errors='strict')
    to_utf8(text)

An optional parameter that the caller does not pass (positionally or by keyword) takes the
default below; `none` in the `call…` functions means "not passed". -/

def defaultIncoming : Option Name := none
def defaultEncoding : Name := "utf-8".toList
def defaultErrors : Policy := .strict

def argOr {α : Type} (passed : Option α) (dflt : α) : α :=
  match passed with
  | some a => a
  | none => dflt

/-- `safe_decode` as called with any subset of its optional parameters -/
def callSafeDecode (C : Codecs) (env : Env) (v : Val) (incoming : Option (Option Name))
    (errors : Option Policy) : Except Err Text :=
  safeDecode C env v (argOr incoming defaultIncoming) (argOr errors defaultErrors)

/-- `safe_encode` as called with any subset of its optional parameters -/
def callSafeEncode (C : Codecs) (env : Env) (v : Val) (incoming : Option (Option Name))
    (encoding : Option Name) (errors : Option Policy) : Except Err Bytes :=
  safeEncode C env v (argOr incoming defaultIncoming) (argOr encoding defaultEncoding)
    (argOr errors defaultErrors)

/-! ## A concrete codec table: utf-8, latin-1, ascii -/

/-- bytes of one code point in UTF-8, as numbers -/
def utf8EncodeNat (n : Nat) : List Nat :=
  if n < 0x80 then [n]
  else if n < 0x800 then [0xC0 + n / 64, 0x80 + n % 64]
  else if n < 0x10000 then [0xE0 + n / 4096, 0x80 + n / 64 % 64, 0x80 + n % 64]
  else [0xF0 + n / 262144, 0x80 + n / 4096 % 64, 0x80 + n / 64 % 64, 0x80 + n % 64]

def utf8EncodeNats : Text → List Nat
  | [] => []
  | c :: cs => utf8EncodeNat c.toNat ++ utf8EncodeNats cs

/-- UTF-8 decoder state: `need` continuation bytes still expected (0 = idle), the value
    accumulated so far, and the range the next byte must lie in (Unicode table 3-7). -/
structure DSt where
  need : Nat
  acc : Nat
  lo : Nat
  hi : Nat
  deriving DecidableEq, Repr

/-- decoder events: a decoded code point, or one ill-formed "maximal subpart" -/
inductive Ev
  | ch (n : Nat)
  | bad
  deriving DecidableEq, Repr

def idle : DSt := ⟨0, 0, 0, 0⟩

/-- a byte seen in the idle state -/
def startByte (b : Nat) : DSt × List Ev :=
  if b < 0x80 then (idle, [.ch b])
  else if 0xC2 ≤ b ∧ b ≤ 0xDF then (⟨1, b - 0xC0, 0x80, 0xBF⟩, [])
  else if 0xE0 ≤ b ∧ b ≤ 0xEF then
    (⟨2, b - 0xE0, if b = 0xE0 then 0xA0 else 0x80, if b = 0xED then 0x9F else 0xBF⟩, [])
  else if 0xF0 ≤ b ∧ b ≤ 0xF4 then
    (⟨3, b - 0xF0, if b = 0xF0 then 0x90 else 0x80, if b = 0xF4 then 0x8F else 0xBF⟩, [])
  else (idle, [.bad])

/-- one byte; a byte that cannot continue the pending sequence ends it as ill-formed and is
    then looked at again as a first byte -/
def feed (st : DSt) (b : Nat) : DSt × List Ev :=
  if st.need = 0 then startByte b
  else if st.lo ≤ b ∧ b ≤ st.hi then
    if st.need = 1 then (idle, [.ch (st.acc * 64 + (b - 0x80))])
    else (⟨st.need - 1, st.acc * 64 + (b - 0x80), 0x80, 0xBF⟩, [])
  else ((startByte b).1, .bad :: (startByte b).2)

def utf8Events (st : DSt) : List Nat → List Ev
  | [] => if st.need = 0 then [] else [.bad]      -- "unexpected end of data"
  | b :: rest => (feed st b).2 ++ utf8Events (feed st b).1 rest

/-- a number as a character, when it is a Unicode scalar value -/
def mkChar? (n : Nat) : Option Char :=
  if n.isValidChar then some (Char.ofNat n) else none

def replacementChar : Char := Char.ofNat 0xFFFD

/-- apply the error policy to the decoder's events (`errKind` is what strict raises) -/
def collect (p : Policy) : List Ev → Except Err Text
  | [] => .ok []
  | .ch n :: rest =>
    match mkChar? n, collect p rest with
    | some c, .ok t => .ok (c :: t)
    | none, _ => .error .unicodeDecodeError      -- unreachable: the ranges admit scalar values only
    | _, .error e => .error e
  | .bad :: rest =>
    match p with
    | .strict => .error .unicodeDecodeError
    | .ignore => collect p rest
    | .replace => (collect p rest).map (replacementChar :: ·)

def utf8Decode (p : Policy) (b : Bytes) : Except Err Text :=
  collect p (utf8Events idle (b.map UInt8.toNat))

/-- every `Char` is encodable (text is surrogate-free) -/
def utf8Encode (t : Text) : Bytes := (utf8EncodeNats t).map Nat.toUInt8

/-- single-byte codecs: code points below `limit` are themselves (ascii: 128, latin-1: 256) -/
def sbEncode (limit : Nat) (p : Policy) : Text → Except Err Bytes
  | [] => .ok []
  | c :: cs =>
    if c.toNat < limit then (sbEncode limit p cs).map (c.toNat.toUInt8 :: ·)
    else match p with
      | .strict => .error .unicodeEncodeError
      | .ignore => sbEncode limit p cs
      | .replace => (sbEncode limit p cs).map (63 :: ·)       -- b'?'

def sbDecode (limit : Nat) (p : Policy) : Bytes → Except Err Text
  | [] => .ok []
  | b :: bs =>
    if b.toNat < limit then (sbDecode limit p bs).map (Char.ofNat b.toNat :: ·)
    else match p with
      | .strict => .error .unicodeDecodeError
      | .ignore => sbDecode limit p bs
      | .replace => (sbDecode limit p bs).map (replacementChar :: ·)

inductive Kind | utf8 | latin1 | ascii
  deriving DecidableEq, Repr

/-- CPython's codec-name normalisation, as far as the names used here need it:
    case-insensitive, `-` and space are `_` -/
def normName (n : Name) : Name :=
  (lowerName n).map (fun c => if c = '-' ∨ c = ' ' then '_' else c)

def utf8Aliases : List Name := ["utf_8", "utf8", "u8", "utf", "cp65001"].map String.toList
def latin1Aliases : List Name :=
  ["latin_1", "latin1", "iso_8859_1", "iso8859_1", "l1", "latin", "8859", "cp819"].map String.toList
def asciiAliases : List Name := ["ascii", "us_ascii", "646", "us"].map String.toList

def lookup (n : Name) : Option Kind :=
  let m := normName n
  if utf8Aliases.contains m then some .utf8
  else if latin1Aliases.contains m then some .latin1
  else if asciiAliases.contains m then some .ascii
  else none

/-- the concrete table the driver runs -/
def real : Codecs where
  encode n p t :=
    match lookup n with
    | none => .error .lookupError
    | some .utf8 => .ok (utf8Encode t)
    | some .latin1 => sbEncode 256 p t
    | some .ascii => sbEncode 128 p t
  decode n p b :=
    match b with
    | [] => .ok []           -- CPython: `b''.decode(anything)` is '' before any codec lookup
    | _ :: _ =>
      match lookup n with
      | none => .error .lookupError
      | some .utf8 => utf8Decode p b
      | some .latin1 => sbDecode 256 p b
      | some .ascii => sbDecode 128 p b

end Oslo.Encode
