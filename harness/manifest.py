"""Regenerate MANIFEST.json from the property modules that exist."""
import importlib
import json
import os
import sys

sys.path.insert(0, os.path.dirname(os.path.abspath(__file__)))
import common  # noqa: E402

PENDING = 'check not built yet (work in progress; see DESIGN.md section 9)'


def main():
    ids = [json.loads(l)['id'] for l in open(os.path.join(common.VERIF, 'properties.jsonl'))]
    checks, na = [], []
    for pid in ids:
        if not os.path.exists(os.path.join(common.VERIF, 'harness', 'props', pid + '.py')):
            na.append({'property_id': pid, 'reason': PENDING})
            continue
        p = importlib.import_module('props.' + pid)
        if getattr(p, 'NOT_CLAIMED', None):
            na.append({'property_id': pid, 'reason': p.NOT_CLAIMED})
            continue
        checks.append({
            'property_id': pid,
            'quick_cmd': './check %s --tier quick' % pid,
            'thorough_cmd': './check %s --tier thorough' % pid,
            'evidence_file': 'evidence/%s.json' % pid,
            'replay_cmd_template': './check %s --replay {path}' % pid,
            'engine': 'lean4-model+correspondence',
            'level_claimed': {'category': p.LEVEL, 'text': p.LEVEL_TEXT, 'design_ref': p.DESIGN_REF},
            'level_note': p.LEVEL_NOTE,
            'technique': p.TECHNIQUE,
        })
    man = {
        'version': 1,
        'setup_cmd': './setup.sh',
        'hooks': {
            'guard': 'OSLO_UTILS_VERIF',
            'enable': 'no source hooks: the harness observes public attributes and replaces timeutils.now / '
                      'wraps bound methods in its own process',
            'baseline_off_cmd': 'cd /repo && /venv/bin/python -m pytest -q -p no:cacheprovider --timeout=900 '
                                '--continue-on-collection-errors',
            'source_commits': [],
            'add_only': True,
        },
        'engines': [{
            'name': 'lean4-model+correspondence', 'path': 'lean/',
            'serves_properties': [c['property_id'] for c in checks],
            'kind_free_text': 'Lean 4 model + theorems (lake build), data translator harness/gen_*.py, '
                              'differential correspondence and implementation-only failing-input search in harness/',
        }],
        'checks': checks,
        'not_applicable': na,
        'notes': 'Fixes to /repo are separate "fix:" commits recorded in known_findings.json. '
                 'Exit 2 from a check is an infrastructure failure, never a violation.',
    }
    with open(os.path.join(common.VERIF, 'MANIFEST.json'), 'w') as f:
        json.dump(man, f, indent=1)
        f.write('\n')
    print('MANIFEST.json: %d checks, %d not claimed' % (len(checks), len(na)))


if __name__ == '__main__':
    main()
