"""Shared machinery for the oslo.utils Lean checks.

Flow of one check (see DESIGN.md section 7):
  build model + driver  ->  build property theorems  ->  axiom / hygiene audit
  ->  correspondence (model vs implementation)  ->  failing-input search
  (implementation only)  ->  evidence  ->  exit status.

Nothing in this file decides a property; it only orchestrates.
"""
import fcntl
import hashlib
import json
import os
import random
import re
import subprocess
import sys
import threading
import time
import traceback

VERIF = os.path.dirname(os.path.dirname(os.path.abspath(__file__)))
LEAN = os.path.join(VERIF, 'lean')
REPO = os.environ.get('VERIF_REPO', '/repo')
EVIDENCE = os.path.join(VERIF, 'evidence')
REPLAYS = os.path.join(VERIF, 'replays')
ALLOWED_AXIOMS = {'propext', 'Classical.choice', 'Quot.sound'}
HYGIENE_RE = re.compile(
    r'\bsorry\b|\badmit\b|^axiom |native_decide|bv_decide|implemented_by|'
    r'\bunsafe |maxHeartbeats 0', re.M)

if REPO not in sys.path:
    sys.path.insert(0, REPO)


def hexb(b):
    return b.hex() if b else '-'


def hexs(s):
    return hexb(s.encode('utf-8', 'surrogatepass'))


def unhexb(s):
    return b'' if s == '-' else bytes.fromhex(s)


def unhexs(s):
    return unhexb(s).decode('utf-8')


def run(cmd, cwd=None, timeout=None, env=None):
    p = subprocess.run(cmd, cwd=cwd, stdout=subprocess.PIPE,
                       stderr=subprocess.STDOUT, timeout=timeout, env=env)
    out = p.stdout.decode('utf-8', 'replace')
    out = '\n'.join(l for l in out.splitlines()
                    if 'conda.cli.condarc' not in l)
    return p.returncode, out


class BuildLock:
    """Exclusive lock around everything that writes under lean/.lake or
    lean/OsloModel/Generated (several checks may be started at once)."""

    def __enter__(self):
        self.f = open(os.path.join(LEAN, '.lock'), 'w')
        fcntl.flock(self.f, fcntl.LOCK_EX)
        return self

    def __exit__(self, *a):
        fcntl.flock(self.f, fcntl.LOCK_UN)
        self.f.close()


def write_if_changed(path, text):
    try:
        if open(path).read() == text:
            return False
    except OSError:
        pass
    os.makedirs(os.path.dirname(path), exist_ok=True)
    tmp = path + '.tmp%d' % os.getpid()
    with open(tmp, 'w') as f:
        f.write(text)
    os.replace(tmp, path)
    return True


def lake_build(targets, timeout=3000):
    rc, out = run(['lake', 'build'] + list(targets), cwd=LEAN, timeout=timeout)
    return rc == 0, out


def theorem_names(module):
    """Names of the theorems stated in a Props module (the obligations)."""
    path = os.path.join(LEAN, *module.split('.')) + '.lean'
    src = strip_lean_comments(open(path).read())
    ns = re.search(r'^namespace\s+(\S+)', src, re.M)
    prefix = (ns.group(1) + '.') if ns else ''
    names = re.findall(r'^theorem\s+([A-Za-z_][\w\.\']*)', src, re.M)
    return [prefix + n for n in names if not n.startswith('lemma_')]


def failing_theorems(module, build_out):
    """Map `file:line: error` lines of a failed build to theorem names."""
    path = os.path.join(LEAN, *module.split('.')) + '.lean'
    rel = '/'.join(module.split('.')) + '.lean'
    try:
        lines = open(path).read().splitlines()
    except OSError:
        return ['<module missing>']
    out = []
    for m in re.finditer(r'(error: )?' + re.escape(rel) + r':(\d+):\d+:( error)?', build_out):
        if not (m.group(1) or m.group(3)):
            continue
        ln = int(m.group(2))
        name = None
        for i in range(min(ln, len(lines)) - 1, -1, -1):
            mm = re.match(r'\s*(?:private\s+)?(?:theorem|example|def|instance)\s*([A-Za-z_][\w\.\']*)?', lines[i])
            if mm:
                name = mm.group(1) or ('example@%d' % (i + 1))
                break
        out.append(name or ('line %d' % ln))
    return sorted(set(out)) or ['<unattributed build error>']


def audit_axioms(prop_id, modules):
    """#print axioms for every property theorem; returns (ok, {thm: [axioms]}, text)."""
    names = []
    for m in modules:
        names += theorem_names(m)
    src = ''.join('import %s\n' % m for m in modules)
    src += ''.join('#print axioms %s\n' % n for n in names)
    path = os.path.join(LEAN, 'OsloProofs', 'Audit', prop_id + '.lean')
    write_if_changed(path, src)
    rc, out = run(['lake', 'env', 'lean', path], cwd=LEAN, timeout=1200)
    result = {}
    # "'X' depends on axioms: [a, b]" | "'X' does not depend on any axioms"
    flat = re.sub(r'\s+', ' ', out)
    for m in re.finditer(r"'([^']+)' depends on axioms: \[([^\]]*)\]", flat):
        result[m.group(1)] = [a.strip() for a in m.group(2).split(',') if a.strip()]
    for m in re.finditer(r"'([^']+)' does not depend on any axioms", flat):
        result[m.group(1)] = []
    bad = {n: a for n, a in result.items() if not set(a) <= ALLOWED_AXIOMS}
    missing = [n for n in names if n not in result]
    ok = rc == 0 and not bad and not missing
    return ok, result, out, names, bad, missing


def strip_lean_comments(src):
    src = re.sub(r'/-.*?-/', '', src, flags=re.S)
    src = re.sub(r'--.*', '', src)
    return src


def hygiene(files):
    hits = []
    for f in files:
        try:
            src = strip_lean_comments(open(f).read())
        except OSError:
            continue
        for m in HYGIENE_RE.finditer(src):
            hits.append('%s: %s' % (os.path.relpath(f, LEAN), m.group(0)))
    return hits


def module_files(modules):
    """Transitive closure of project-local imports of the given modules."""
    seen, todo = set(), list(modules)
    while todo:
        m = todo.pop()
        if m in seen:
            continue
        path = os.path.join(LEAN, *m.split('.')) + '.lean'
        if not os.path.exists(path):
            continue
        seen.add(m)
        for imp in re.findall(r'^import\s+(\S+)', open(path).read(), re.M):
            if imp.split('.')[0] in ('OsloModel', 'OsloProofs', 'Drivers'):
                todo.append(imp)
    return [os.path.join(LEAN, *m.split('.')) + '.lean' for m in sorted(seen)]


class Driver:
    """A running Lean model driver (line protocol, see OsloModel/Proto.lean)."""

    def __init__(self, exe):
        self.path = os.path.join(LEAN, '.lake', 'build', 'bin', exe)

    def ask_many(self, lines, timeout=3000):
        """Send all request lines, return the reply lines (same order)."""
        data = ('\n'.join(lines) + '\n').encode('utf-8') if lines else b''
        p = subprocess.run([self.path], input=data, stdout=subprocess.PIPE,
                           stderr=subprocess.PIPE, timeout=timeout)
        out = p.stdout.decode('utf-8').split('\n')
        if out and out[-1] == '':
            out.pop()
        if p.returncode != 0 or len(out) != len(lines):
            raise RuntimeError('driver %s failed: rc=%s, %d replies for %d requests: %s'
                               % (self.path, p.returncode, len(out), len(lines),
                                  p.stderr.decode('utf-8', 'replace')[-500:]))
        return out

    def ask(self, line):
        return self.ask_many([line])[0]


def req(*fields):
    return '\t'.join(str(f) for f in fields)


class Ctx:
    """Per-run context handed to a property module."""

    def __init__(self, prop, tier, seed):
        self.prop = prop
        self.tier = tier
        self.seed = seed
        self.rng = random.Random('%s/%s' % (prop.ID, seed))
        self.quick = tier == 'quick'
        self.driver = None
        self.hist = {}
        self.samples = []
        self.notes = []
        self.drift = []
        self.distinct = set()
        self.evaluations = 0
        self.t0 = time.time()

    def count(self, key, n=1):
        self.hist[key] = self.hist.get(key, 0) + n

    def sample(self, obj, limit=6):
        if len(self.samples) < limit:
            self.samples.append(obj)

    def nontrivial(self, canon):
        """Record one distinct, non-trivial case (by the module's stated rule)."""
        self.distinct.add(hashlib.sha1(repr(canon).encode('utf-8', 'replace')).digest()[:10])


class Disagreement:
    def __init__(self, case, impl, model, where='correspondence'):
        self.case, self.impl, self.model, self.where = case, impl, model, where

    def to_json(self):
        return {'case': self.case, 'implementation': self.impl, 'model': self.model,
                'where': self.where}


class Failure:
    """A concrete input on which the property fails on the implementation."""

    def __init__(self, case, detail, klass=None):
        self.case, self.detail, self.klass = case, detail, klass

    def to_json(self):
        return {'case': self.case, 'detail': self.detail, 'class': self.klass}


def load_findings():
    try:
        return json.load(open(os.path.join(VERIF, 'known_findings.json')))
    except OSError:
        return {'findings': [], 'fixed': []}


def write_replay(prop_id, seed, payload):
    os.makedirs(REPLAYS, exist_ok=True)
    h = hashlib.sha1(json.dumps(payload, sort_keys=True, default=str).encode()).hexdigest()[:10]
    path = os.path.join(REPLAYS, '%s-%s-%s.json' % (prop_id, seed, h))
    with open(path, 'w') as f:
        json.dump(payload, f, indent=1, sort_keys=True, default=str)
    return path


def write_evidence(prop_id, ev):
    os.makedirs(EVIDENCE, exist_ok=True)
    path = os.path.join(EVIDENCE, prop_id + '.json')
    tmp = path + '.tmp%d' % os.getpid()
    with open(tmp, 'w') as f:
        json.dump(ev, f, indent=1, sort_keys=True, default=str)
    os.replace(tmp, path)
    return path


def shrink_list(items, still_fails, max_steps=400):
    """Delta-debugging on a list: smallest sub-list on which still_fails holds."""
    items = list(items)
    n = 2
    steps = 0
    while len(items) >= 2 and steps < max_steps:
        chunk = max(1, len(items) // n)
        reduced = False
        for i in range(0, len(items), chunk):
            cand = items[:i] + items[i + chunk:]
            steps += 1
            if cand and still_fails(cand):
                items = cand
                n = max(n - 1, 2)
                reduced = True
                break
        if not reduced:
            if chunk == 1:
                break
            n = min(n * 2, len(items))
    return items


def ambient_what(name):
    if not name:
        return None
    import ambient
    return ambient.CONFIGS.get(name, (None, None, name))[2]


def run_check(prop, tier, seed):
    """Run one property's check; returns the process exit status."""
    t0 = time.time()
    ctx = Ctx(prop, tier, seed)
    broken = []          # proof obligations / correspondences that no longer check
    infra = []           # infrastructure problems (exit 2)
    obligations, discharged, axioms = [], [], {}
    # source drift against the tree the model was last validated on: not a violation, only a reason
    # to spend the large budgets (see harness/fingerprint.py)
    try:
        import fingerprint
        ctx.drift = fingerprint.drift(prop.ID, REPO)
    except Exception as e:
        ctx.drift = ['<fingerprint error %s>' % type(e).__name__]
    if ctx.drift:
        ctx.notes.append('source drift in anchored definitions (large budgets used): ' + ', '.join(ctx.drift[:12]))

    # ---- 1. translator + model + driver --------------------------------
    with BuildLock():
        try:
            if getattr(prop, 'generate', None):
                prop.generate()
        except Exception as e:       # tables could not be translated
            broken.append({'kind': 'translator', 'name': 'generate',
                           'detail': ''.join(traceback.format_exception_only(type(e), e))})
        targets = list(getattr(prop, 'MODEL_TARGETS', [])) + [prop.DRIVER]
        ok, out = lake_build(targets)
        model_ok = ok
        if not ok:
            gen = 'Generated' in out
            (broken if gen else infra).append(
                {'kind': 'model-build', 'name': prop.DRIVER, 'detail': out[-3000:]})
        # ---- 2. theorems -------------------------------------------------
        proofs_ok = True
        for m in prop.PROOF_MODULES:
            names = theorem_names(m)
            obligations += names
            ok, out = lake_build(['+' + m])
            if not ok:
                proofs_ok = False
                bad = failing_theorems(m, out)
                for b in bad:
                    broken.append({'kind': 'theorem', 'name': b, 'module': m,
                                   'detail': out[-3000:]})
        # ---- 3. audit ------------------------------------------------------
        if proofs_ok:
            ok, axioms, out, names, bad, missing = audit_axioms(prop.ID, prop.PROOF_MODULES)
            if bad or missing or not ok:
                infra.append({'kind': 'axiom-audit', 'bad': bad, 'missing': missing,
                              'detail': out[-2000:]})
            else:
                discharged = [n for n in names]
        hy = hygiene(module_files(list(prop.PROOF_MODULES) + [getattr(prop, 'DRIVER_ROOT', 'Drivers.' + prop.ID)]))
        if hy:
            infra.append({'kind': 'hygiene', 'hits': hy})
        if tier == 'thorough' and proofs_ok and not os.environ.get('VERIF_NO_LEANCHECKER'):
            rc, out = run(['lake', 'env', 'leanchecker'] + list(prop.PROOF_MODULES),
                          cwd=LEAN, timeout=3000)
            ctx.notes.append('leanchecker rc=%d' % rc)
            if rc != 0:
                infra.append({'kind': 'leanchecker', 'detail': out[-2000:]})

    # ---- 4. correspondence ---------------------------------------------
    disagreements = []
    if model_ok:
        ctx.driver = Driver(prop.DRIVER)
        try:
            disagreements = list(prop.correspondence(ctx) or [])
        except Exception as e:
            if type(e).__name__ == 'HarnessBlind':
                # a private detail the correspondence observes cannot be located in this tree: the
                # correspondence no longer checks (never a failing input by itself)
                broken.append({'kind': 'harness-blind', 'name': prop.ID + ' correspondence', 'detail': str(e)})
            else:
                infra.append({'kind': 'correspondence-crash', 'detail': traceback.format_exc()[-3000:]})
    corr_evals = ctx.evaluations
    if disagreements:
        broken.append({'kind': 'correspondence', 'name': prop.ID + ' model/implementation',
                       'detail': [d.to_json() for d in disagreements[:5]],
                       'count': len(disagreements)})

    # ---- 5. failing-input search (implementation only) -----------------
    failures = []
    try:
        seeds = [d.case for d in disagreements]
        failures = list(prop.search(ctx, seeds, full=bool(broken) or bool(ctx.drift)) or [])
    except Exception as e:
        if type(e).__name__ == 'HarnessBlind':
            broken.append({'kind': 'harness-blind', 'name': prop.ID + ' search', 'detail': str(e)})
        else:
            infra.append({'kind': 'search-crash', 'detail': traceback.format_exc()[-3000:]})
    search_evals = ctx.evaluations - corr_evals

    # ---- 5b. ambient sweep: the same correspondence and search in child interpreters whose implicit
    # inputs differ (python -O, -bb, warnings as errors, logging levels, lazy i18n, TZ, stdin, ...) ----
    amb_summary = {}
    if model_ok and not os.environ.get('VERIF_NO_AMBIENT'):
        import ambient
        amb_results, amb_infra = ambient.sweep(prop, tier, seed)
        infra += amb_infra
        for name, r in sorted(amb_results.items()):
            new_here = [j for j in r['failures'] if not j.get('kid')]
            amb_summary[name] = {'what': ambient.CONFIGS[name][2], 'wall_s': r.get('wall_s'),
                                 'correspondence_evaluations': r['corr_evals'],
                                 'search_evaluations': r['search_evals'],
                                 'disagreements': r.get('n_disagreements', 0),
                                 'failing': len(r['failures']), 'new': len(new_here),
                                 'left_out_of_correspondence_as_outside_the_modelled_configuration':
                                     r.get('outside_configuration', 0)}
            for b in r['blind']:
                broken.append({'kind': 'harness-blind', 'name': '%s %s (ambient %s)' % (prop.ID, b.split(':')[0], name),
                               'ambient': name, 'detail': b})
            if r.get('n_disagreements'):
                broken.append({'kind': 'correspondence', 'ambient': name,
                               'name': '%s model/implementation under ambient configuration %s (%s)'
                                       % (prop.ID, name, ambient.CONFIGS[name][2]),
                               'detail': r['disagreements'], 'count': r['n_disagreements']})
            for j in r['failures']:
                f = Failure(j['case'], j['detail'], j.get('class'))
                f.ambient, f.kid, f.preclassified = name, j.get('kid'), True
                failures.append(f)
        for name in ambient.DEFAULT:
            if (prop.ID, name) in ambient.SKIP:
                amb_summary[name] = {'skipped': ambient.SKIP[(prop.ID, name)]}

    # ---- 6. classify against the known findings --------------------------
    findings = load_findings()
    listed = [f for f in findings.get('findings', []) if prop.ID in f.get('properties', [])]
    known_hits, new_failures = {}, []
    for f in failures:
        kid = None
        if getattr(f, 'preclassified', False):
            kid = f.kid             # classified in the child that found it
        else:
            try:
                kid = prop.classify(ctx, f, listed) if getattr(prop, 'classify', None) else None
            except Exception:
                infra.append({'kind': 'classify-crash', 'detail': traceback.format_exc()[-2000:]})
        if kid:
            known_hits.setdefault(kid, []).append(f)
        else:
            new_failures.append(f)
    known_lines = []
    for kf in listed:
        still = True
        if getattr(prop, 'witness_reproduces', None):
            try:
                still = prop.witness_reproduces(ctx, kf)
            except Exception:
                still = False
                infra.append({'kind': 'witness-crash', 'detail': traceback.format_exc()[-2000:]})
        if still or kf['id'] in known_hits:
            known_lines.append('KNOWN-FINDING: property=%s %s: %s' % (prop.ID, kf['id'], kf['what_fails']))

    # ---- 7. verdict, replay files, evidence --------------------------------
    violations = []
    seen = set()
    for f in new_failures:
        key = json.dumps(f.detail.get('kind', f.detail) if isinstance(f.detail, dict) else f.detail,
                         sort_keys=True, default=str)
        if key in seen and len(violations) >= 1:
            continue
        seen.add(key)
        if len(violations) >= 5:
            break
        path = write_replay(prop.ID, seed, {
            'property': prop.ID, 'kind': 'failing-input', 'failure': f.to_json(),
            'ambient': getattr(f, 'ambient', None),
            'ambient_what': ambient_what(getattr(f, 'ambient', None)),
            'broken': [{k: v for k, v in b.items() if k != 'detail'} for b in broken],
            'how_to_replay': './check %s --replay <this file>' % prop.ID})
        violations.append((path, ''))
    if broken and not new_failures:
        path = write_replay(prop.ID, seed, {
            'property': prop.ID, 'kind': 'no-failing-input-found',
            'no_longer_checks': broken,
            'known_failures_seen': {k: len(v) for k, v in known_hits.items()},
            'search_evaluations': search_evals})
        violations.append((path, ' no-failing-input-found'))

    wall = time.time() - t0
    level = getattr(prop, 'LEVEL', 'proof')
    ev = {
        'property_id': prop.ID, 'tier': tier, 'seed': seed, 'level': level,
        'wall_s': round(wall, 2), 'violations': len(violations),
        'coverage': {
            'obligations': len(obligations), 'discharged': len(discharged),
            'obligation_names': obligations,
            'axioms': axioms,
            'partial_theorems': [n for n in obligations if n.endswith('_partial')],
            'checker_cmd': 'cd lean && lake build ' + ' '.join('+' + m for m in prop.PROOF_MODULES)
                           + ' && lake env lean OsloProofs/Audit/%s.lean' % prop.ID
                           + (' && lake env leanchecker ' + ' '.join(prop.PROOF_MODULES) if tier == 'thorough' else ''),
            'trusted_base': list(getattr(prop, 'TRUSTED_BASE', [])),
            'evaluations': ctx.evaluations,
            'correspondence_evaluations': corr_evals,
            'search_evaluations': search_evals,
            'distinct_nontrivial': len(ctx.distinct),
            'rule': getattr(prop, 'RULE', ''),
            'samples': ctx.samples or ['<none>'],
            'input_distribution': dict(sorted(ctx.hist.items())),
            'disagreements_checked': corr_evals,
            'disagreements': len(disagreements),
            'broken': [{k: (v if k != 'detail' else str(v)[:600]) for k, v in b.items()} for b in broken],
            'known_findings_reported': [l for l in known_lines],
            'unmodelled': list(getattr(prop, 'UNMODELLED', [])),
            'notes': ctx.notes,
            'exhaustive': bool(getattr(ctx, 'exhaustive', False)),
            'ambient_sweep': amb_summary,
        },
        'assumptions': list(getattr(prop, 'ASSUMPTIONS', [])),
    }
    if infra:
        ev['coverage']['infrastructure_errors'] = [{k: str(v)[:1500] for k, v in i.items()} for i in infra]
    write_evidence(prop.ID, ev)

    for l in known_lines:
        print(l)
    for path, suffix in violations:
        print('VIOLATION property=%s replay=%s%s' % (prop.ID, os.path.relpath(path, VERIF), suffix))
    print('%s %s seed=%s: obligations %d/%d discharged, %d correspondence cases (%d disagreements), '
          '%d search cases (%d failing, %d new), %.1fs'
          % (prop.ID, tier, seed, len(discharged), len(obligations), corr_evals, len(disagreements),
             search_evals, len(failures), len(new_failures), wall))
    if violations:
        return 1
    if infra:
        for i in infra:
            print('INFRASTRUCTURE-ERROR %s: %s' % (i.get('kind'), str(i)[:1500]), file=sys.stderr)
        return 2
    return 0
