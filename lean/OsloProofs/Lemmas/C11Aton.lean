/-
Helper lemmas for C11: the inet_aton model on canonical dotted quads.
-/
import OsloProofs.Lemmas.C11V4
set_option linter.unusedSimpArgs false
namespace Oslo.Net

theorem lemma_dot_facts : isDigit '.' = false ∧ isOct '.' = false ∧ ('.' = 'x') = False ∧ ('.' = 'X') = False := by
  decide

/-- `strtoul` reads a canonical octet completely and stops at the '.' or at the end -/
theorem lemma_strtoul0_render (n : Nat) (hn : n < 256) (R : List Char) (hR : R = [] ∨ ∃ R', R = '.' :: R') :
    strtoul0 (renderOctet n ++ R) = (n, R) := by
  have hstop : ∀ acc, spanVal isDigit 10 digitVal acc R = (acc, R) ∧ spanVal isOct 8 digitVal acc R = (acc, R) := by
    intro acc
    rcases hR with rfl | ⟨R', rfl⟩ <;> simp [spanVal, lemma_dot_facts]
  unfold renderOctet
  split
  · have f := lemma_dig_facts n (by omega)
    by_cases h0 : n = 0
    · subst h0
      rcases hR with rfl | ⟨R', rfl⟩
      · decide
      · cases R' with
        | nil => decide
        | cons h t =>
          have : dig 0 = '0' := by decide
          simp [strtoul0, this, spanVal, lemma_dot_facts]
    · have hne : ¬ dig n = '0' := fun e => h0 (f.2.2.1.1 e)
      simp [strtoul0, hne, spanVal, f.1, f.2.1, (hstop _).1]
  · split
    · have f1 := lemma_dig_facts (n / 10) (by omega)
      have f2 := lemma_dig_facts (n % 10) (by omega)
      have hne : ¬ dig (n / 10) = '0' := fun e => by have := f1.2.2.1.1 e; omega
      simp [strtoul0, hne, spanVal, f1.1, f1.2.1, f2.1, f2.2.1, (hstop _).1]
      omega
    · have f1 := lemma_dig_facts (n / 100) (by omega)
      have f2 := lemma_dig_facts (n / 10 % 10) (by omega)
      have f3 := lemma_dig_facts (n % 10) (by omega)
      have hne : ¬ dig (n / 100) = '0' := fun e => by have := f1.2.2.1.1 e; omega
      simp [strtoul0, hne, spanVal, f1.1, f1.2.1, f2.1, f2.2.1, f3.1, f3.2.1, (hstop _).1]
      omega

theorem lemma_render_head (n : Nat) (hn : n < 256) : ∃ c t, renderOctet n = c :: t ∧ isDigit c = true := by
  have hd := lemma_render_digits n hn
  cases h : renderOctet n with
  | nil => unfold renderOctet at h; split at h <;> (try split at h) <;> simp at h
  | cons c t => exact ⟨c, t, rfl, hd c (by simp [h])⟩

theorem lemma_aton_step (n : Nat) (hn : n < 256) (rem : Nat) (R : List Char) :
    atonGo (rem + 1) (renderOctet n ++ '.' :: R) = atonGo rem R := by
  have hs := lemma_strtoul0_render n hn ('.' :: R) (Or.inr ⟨R, rfl⟩)
  obtain ⟨c, t, e, hc⟩ := lemma_render_head n hn
  rw [atonGo.eq_def]
  rw [e] at hs ⊢
  simp only [List.cons_append] at hs ⊢
  simp only [hc, hs, Bool.not_true, Bool.false_eq_true, if_false, if_true]
  rw [if_neg (by omega), if_neg (by omega)]

theorem lemma_aton_last (n : Nat) (hn : n < 256) (rem : Nat) : atonGo rem (renderOctet n) = true := by
  have hs := lemma_strtoul0_render n hn [] (Or.inl rfl)
  obtain ⟨c, t, e, hc⟩ := lemma_render_head n hn
  have hmax : n ≤ atonMax rem := by
    unfold atonMax; split <;> omega
  rw [atonGo.eq_def]
  rw [List.append_nil] at hs
  rw [e] at hs ⊢
  simp only [hc, hs, Bool.not_true, Bool.false_eq_true, if_false]
  rw [if_neg (by omega)]
  simp [hmax]

/-- the inet_aton model accepts every canonical dotted quad -/
theorem lemma_aton_quad (a b c d : Nat) (ha : a < 256) (hb : b < 256) (hc : c < 256) (hd : d < 256) :
    atonGo 3 (renderQuad a b c d) = true := by
  unfold renderQuad
  rw [lemma_aton_step a ha, lemma_aton_step b hb, lemma_aton_step c hc, lemma_aton_last d hd]

end Oslo.Net
