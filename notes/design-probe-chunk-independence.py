import struct, io, uuid, random, sys, zlib
sys.path.insert(0,'/tmp/repo_fix')
from oslo_utils.imageutils import format_inspector as fi
assert fi.__file__.startswith('/tmp/repo_fix')
G=lambda s: uuid.UUID(s).bytes_le
MR=G(fi.VHDXInspector.METAREGION); VDS=G(fi.VHDXInspector.VIRTUAL_DISK_SIZE)
rnd=random.Random(int(sys.argv[1]) if len(sys.argv)>1 else 0)
def verdict(i, raised):
    out=[]
    for f in (lambda: i.format_match, lambda: i.complete, lambda: i.virtual_size):
        try: out.append(f())
        except Exception as e: out.append('EXC:'+type(e).__name__)
    try: i.safety_check(); out.append('ok')
    except fi.SafetyCheckFailed as e: out.append('failed:'+','.join(sorted(e.failures)))
    except Exception as e: out.append('EXC:'+type(e).__name__)
    out.append(raised)
    return tuple(out)
def run(cls, data, cuts, stop_on_raise=True):
    i=cls(); raised=None; pos=0
    slices_ok=True
    for c in cuts+[len(data)]:
        chunk=data[pos:c]; pos=c
        try: i.eat_chunk(chunk)
        except Exception as e:
            raised=type(e).__name__
            break   # wrapper semantics: never fed again
    i.finish()
    for name,r in i._capture_regions.items():
        if r.data != data[r.offset:r.offset+len(r.data)]: slices_ok=False
    return verdict(i, raised), slices_ok
def chunkings(n, bounds):
    yield [n] if False else []
    for cs in (512, 4096, 65536, 1<<20):
        yield list(range(cs, n, cs))
    for _ in range(6):
        k=rnd.randint(1,6); yield sorted(rnd.sample(range(0,n+1),min(k,n+1)))
    for b in bounds:
        for d in (-1,0,1):
            if 0<b+d<n: yield [b+d]
    for cs in (1,3,64,100):
        if n<=3000: yield list(range(cs,n,cs))
    for _ in range(4):
        bs=[b+rnd.choice((-1,0,1)) for b in rnd.sample(bounds, min(len(bounds),rnd.randint(2,4)))]
        yield sorted(x for x in bs if 0<x<n)
    # with empties
    yield [0,0,n//2,n//2]
def vhdx_img():
    H=192*1024
    meta_off=rnd.choice([0x40000,0x40001,0x50000,0x100000,0x100000, 0x40000+rnd.randint(0,0x20000), 0x10000, 0x30000+rnd.randint(0,0xffff), 0x3fff0, rnd.randint(0,0x3ffff)])
    nreg=rnd.choice([0,1,2,3,5]); midx=rnd.randint(0,max(nreg-1,0))
    nmeta=rnd.choice([0,1,2,4,40]); vidx=rnd.randint(0,max(nmeta-1,0))
    es=32+nmeta*32
    item_off=rnd.choice([es, es+1, 0x10000,0x10000, es+rnd.randint(0,70000), 0, 40, max(es-1,0), rnd.randint(0,es)])
    item_len=rnd.choice([8,8,8,0,4,16,70000])
    total=meta_off+item_off+max(item_len,8)+rnd.choice([0,1,100,5000])
    buf=bytearray(rnd.choice([total, total, total-rnd.randint(1,20), meta_off+es+rnd.randint(-40,40), H+rnd.randint(0,0x10000)]))
    def put(o,b):
        if o<len(buf): buf[o:o+len(b)]=b[:max(0,len(buf)-o)]
    put(0, rnd.choice([b'vhdxfile',b'vhdxfile',b'vhdxfilX']))
    put(H, struct.pack('<IIII', rnd.choice([0x69676572]*4+[0x12345678]),0,rnd.choice([nreg]*5+[2048,70000]),0))
    for i in range(nreg):
        g = MR if i==midx else bytes(rnd.randrange(256) for _ in range(16))
        put(H+16+32*i, g+struct.pack('<QII', meta_off if i==midx else rnd.randint(0,1<<40), 0x100000,1))
    put(meta_off, struct.pack('<8sHH', rnd.choice([b'metadata']*9+[b'metadatX']),0,rnd.choice([nmeta]*5+[2047,2048,65535])))
    for i in range(nmeta):
        g = VDS if i==vidx and rnd.random()<0.9 else bytes(rnd.randrange(256) for _ in range(16))
        put(meta_off+32+32*i, g+struct.pack('<III', item_off, item_len, 0))
    put(meta_off+item_off, struct.pack('<Q', rnd.choice([0,1,2**63,2**64-1,rnd.getrandbits(40)])))
    bounds=[8,32,H,H+16,H+16+32*max(nreg,1),H+0x10000,meta_off,meta_off+32,meta_off+es,meta_off+item_off,meta_off+item_off+8,meta_off+0x10000]
    return bytes(buf), [b for b in bounds if b<len(buf)]
def vmdk_img():
    gd=rnd.choice([0xffffffffffffffff,0xffffffffffffffff,0,1234])
    ver=rnd.choice([1,2,3,3,3,3,3,3,0,4]); dsec=rnd.choice([1]*9+[0,2]); dnum=rnd.choice([1,1,1,1,2,3,0,2049,2**64-1])
    hdr=struct.pack('<4sIIQQQQIQQ', b'KDMV', ver, 0, rnd.choice([0,100,2**64-1]), 128, dsec, dnum, 512, 0, gd).ljust(512, bytes([rnd.choice([0,0,65])]))
    typ=rnd.choice(['monolithicSparse']*3+['streamOptimized']*3+['STREAMoptimized','monolithicFlat','vmfs'])
    lines=['# Disk DescriptorFile','version=1','CID=fffffffe','createType="%s"'%typ, rnd.choice(['RW 100 SPARSE "x.vmdk"']*5+['RW 100 SPARSE "/etc/x.vmdk"','','bogus line here']), 'ddb.adapterType = "ide"']
    desc=('\n'.join(lines)+'\n').encode()
    dl=min(dnum*512,(1<<20)-1)
    desc=desc.ljust(max(dl,0) if dl<5000 else 5000, rnd.choice([b'\0',b'\0',b' ']))
    foot=struct.pack('<QII', 1, rnd.choice([0,0,1]), rnd.choice([3,3,0])).ljust(512,b'\0')+struct.pack('<4sIIQQQQIQQ', b'KDMV', rnd.choice([ver,ver,1]), 0, 100, 128, rnd.choice([dsec,dsec,5]), dnum, 512, 0, rnd.choice([1234,1234,0xffffffffffffffff])).ljust(512,b'\0')+struct.pack('<QII',rnd.choice([0,0,1]),0,0).ljust(512,b'\0')
    mid=bytes(rnd.choice([0,0,700,5000]))
    if rnd.random()<0.25: hdr=rnd.choice([b'# text vmdk\n'+desc[:rnd.randint(0,200)], desc[:600].replace(b'\0',b' '), b'KDMV'+b'createType="monolithicSparse" '*1, b'XXXX'+hdr[4:]])
    img=hdr+desc+mid+foot
    if rnd.random()<0.1: img=img[:rnd.randint(1,1700)]
    img=img[:rnd.choice([len(img)]*4+[rnd.randint(min(64,len(img)),len(img))])]
    return img,[b for b in (4,44,63,64,65,511,512,513,512+len(desc),len(img)-1536,len(img)-512) if 0<b<len(img)]
def forward_vhdx(d):
    H=192*1024
    if len(d)<H+0x10000: return True
    regi,ck,count,res=struct.unpack('<IIII',d[H:H+16])
    if regi!=0x69676572 or count>=2048: return True
    mo=None
    for i in range(count):
        e=d[H+16+32*i:H+48+32*i]
        if e[:16]==MR: mo=struct.unpack('<Q',e[16:24])[0]; break
    if mo is None: return True
    if mo < 256*1024: return False
    mb=d[mo:mo+0x10000]
    if len(mb)<32: return True
    if mb[:8]!=b'metadata': return 'N4'
    cnt=struct.unpack('<H',mb[10:12])[0]; es=32+cnt*32
    if len(mb)<es: return True
    for i in range(cnt):
        e=mb[32+32*i:64+32*i]
        if e[:16]==VDS:
            io_=struct.unpack('<I',e[16:20])[0]
            return io_>=es
    return True
def vmdk_ok(d):
    def is_text(b):
        return all((32<=c<=126) or c in (9,10,11,12,13,28,29,30,31) for c in b)
    if len(d)<64: return False
    if d[:4]!=b'KDMV': return not is_text(d[:64])
    sig,ver,fl,sec,gr,dsec,dnum,n,rg,gd=struct.unpack('<4sIIQQQQIQQ',d[:64])
    if ver not in (1,2,3): return False
    if gd==0xffffffffffffffff and dsec==1 and 1536<=len(d)<1599: return False
    return True
N=int(sys.argv[2]) if len(sys.argv)>2 else 150
stats={'vhdx':[0,0,0],'vmdk':[0,0,0]}
for fmt,cls,mk,ok in (('vhdx',fi.VHDXInspector,vhdx_img,forward_vhdx),('vmdk',fi.VMDKInspector,vmdk_img,vmdk_ok)):
    seen=set()
    for t in range(N):
        d,b=mk(); hyp=ok(d); n4 = (hyp=='N4'); hyp = (hyp is True)
        ref=None; dis=False
        for cuts in chunkings(len(d), b):
            v,sl=run(cls,d,list(cuts))
            if ref is None: ref=v
            if v!=ref or not sl:
                dis=True
                if hyp:
                    print('COUNTEREXAMPLE' if not n4 else 'N4-class', fmt, len(d), cuts[:6], ref, v, 'slices_ok',sl); 
                break
        seen.add(ref)
        stats[fmt][0]+=1; stats[fmt][1]+= (not hyp); stats[fmt][2]+= dis
    print(fmt, 'images',stats[fmt][0],'outside-hypothesis',stats[fmt][1],'chunk-dependent',stats[fmt][2],'distinct verdicts',len(seen))
    for v in list(seen)[:12]: print('   ',v)
