/-
A small concrete monolithicSparse VMDK image (1024 bytes: sparse header + embedded descriptor),
the non-vacuity witness of the no-revision theorems in Props/C03All.lean.
-/
import OsloModel.Wrapper
namespace Oslo.Insp

/-- 512-byte sparse header: `KDMV`, version 1, flags 0, capacity 2048 sectors, grain 128,
    descriptor at sector 1 (one sector long), 0 GTEs, rgd 0, gd at sector 21 (not GD_AT_END) -/
def stableVmdkHeader : Bytes :=
  ascii "KDMV" ++ [1,0,0,0] ++ [0,0,0,0] ++ [0,8,0,0,0,0,0,0] ++ [128,0,0,0,0,0,0,0] ++
  [1,0,0,0,0,0,0,0] ++ [1,0,0,0,0,0,0,0] ++ [0,0,0,0] ++ [0,0,0,0,0,0,0,0] ++ [21,0,0,0,0,0,0,0] ++
  List.replicate (512 - 64) 0

def stableVmdkDescriptor : Bytes :=
  ascii "# Disk DescriptorFile\nversion=1\ncreateType=\"monolithicSparse\"\nRW 2048 SPARSE \"a.vmdk\"\n"

/-- header sector + descriptor sector (zero padded) -/
def stableVmdkImage : Bytes :=
  stableVmdkHeader ++ stableVmdkDescriptor ++ List.replicate (512 - stableVmdkDescriptor.length) 0

end Oslo.Insp
