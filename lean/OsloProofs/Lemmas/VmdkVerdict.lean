/-
VMDK, sparse-header mode: the observers (`format_match`, `complete`, `virtual_size`, `safety_check`)
read off the explicit final states of VmdkStep.lean, in terms of pure functions of
(`desc_text`, `vmdktype`), the parsed header and the footer bytes.
-/
import OsloProofs.Lemmas.VmdkFeed
namespace Oslo.Insp

/-- `check_descriptor` as a function of (`desc_text`, `vmdktype`) -/
def checkDescOn (dt : Option Bytes) (vt : Bytes) : Bool :=
  match dt with
  | none => false
  | some t =>
    if t.isEmpty then false else
    if !sparseTypes.contains vt then false else
    let lines := (splitOn 0x0a t).map strip
    let kinds := lines.map classifyLine
    if kinds.contains .bad then false else
    let extents := lines.filter (fun l => classifyLine l == .extent)
    if extents.any (fun l => l.contains 0x2f) then false else
    !extents.isEmpty

theorem lemma_checkDesc_eq (s : Insp) : vmdkCheckDescriptor s = checkDescOn s.descText s.vmdkType := rfl

/-- `virtual_size` as a function of (`desc_text`, `vmdktype`) and the header's capacity field -/
def vsizeOn (dt : Option Bytes) (vt : Bytes) (sectors : Nat) : Int :=
  match dt with
  | none => 0
  | some t => if t.isEmpty then 0 else if !sparseTypes.contains vt then 0 else Int.ofNat (sectors * 512)

theorem lemma_checkDescOn_fnf (dt : Option Bytes) : checkDescOn dt formatNotFound = false := by
  have : sparseTypes.contains formatNotFound = false := by decide
  unfold checkDescOn
  cases dt with
  | none => rfl
  | some t =>
    dsimp only
    rw [this]
    split <;> rfl

theorem lemma_vsizeOn_fnf (dt : Option Bytes) (n : Nat) : vsizeOn dt formatNotFound n = 0 := by
  have : sparseTypes.contains formatNotFound = false := by decide
  unfold vsizeOn
  cases dt with
  | none => rfl
  | some t =>
    dsimp only
    rw [this]
    split <;> rfl

/-- `check_footer` after the header has been parsed, as a function of the footer bytes -/
def footerCheckH (hh : SparseHeader) (fdata : Bytes) : Except Err Bool := do
  let fh ← parseSparseHeader fdata 512
  if hh.sig ≠ fh.sig then return false
  if hh.ver ≠ fh.ver then return false
  if hh.descSec ≠ fh.descSec || hh.descNum ≠ fh.descNum then return false
  if fh.gdOffset = Gen.vmdkGdAtEnd then return false
  let m1 := slice fdata 0 512
  if m1.length ≠ 512 then throw .struct
  if leNat (slice m1 8 12) ≠ 0 || leNat (slice m1 12 16) ≠ Gen.vmdkMarkerFooter
      || slice m1 16 512 ≠ zeros 496 then return false
  let m2 := lastN 512 fdata
  if m2.length ≠ 512 then throw .struct
  if leNat (slice m2 0 8) ≠ 0 || leNat (slice m2 8 12) ≠ 0
      || leNat (slice m2 12 16) ≠ Gen.vmdkMarkerEos || slice m2 16 512 ≠ zeros 496 then return false
  return true

theorem lemma_checkFooter_eq (s : Insp) (h f : Region) (hh : SparseHeader)
    (h1 : s.region "header" = .ok h) (h2 : s.region "footer" = .ok f)
    (h3 : parseSparseHeader h.data 0 = .ok hh) :
    vmdkCheckFooter s = footerCheckH hh f.data := by
  unfold vmdkCheckFooter footerCheckH
  simp only [h1, h2, h3, bind, Except.bind]


/-! ### reading the verdict off the final states -/

theorem lemma_post_finish (foot : Bool) (n : Nat) (hd dd : Bytes) (dl fo : Nat) (fd : Bytes)
    (dt : Option Bytes) (vt : Bytes) :
    (vPost foot n hd dd dl fo fd false dt vt).finish = vPost foot n hd dd dl fo fd true dt vt := by
  cases foot <;> rfl

theorem lemma_err_finish (foot : Bool) (n : Nat) (hd d0 : Bytes) (dt : Option Bytes) :
    (vErr foot n hd d0 false dt).finish = vErr foot n hd d0 true dt := by
  cases foot <;> rfl

theorem lemma_vmdk_parse_fields (hd : Bytes) (H : SparseHeader) (hp : parseSparseHeader hd 0 = .ok H) :
    H.sig = hd.take 4 ∧ H.sectors = leNat (slice hd 12 20) ∧ 64 ≤ hd.length := by
  unfold parseSparseHeader at hp
  simp only [Gen.vmdkMinSparseHeader, Nat.zero_add] at hp
  split at hp
  · simp at hp
  · rename_i hl
    simp only [Except.ok.injEq] at hp
    subst hp
    have hl' : 64 ≤ hd.length := by
      simp only [slice, List.drop_zero, List.length_take, ne_eq, Decidable.not_not] at hl
      omega
    refine ⟨?_, ?_, hl'⟩
    · simp [slice, List.take_take]
    · simp only [slice, List.drop_zero, List.take_take]
      congr 2

theorem lemma_vmdk_startsWith_kdmv (hd : Bytes) (H : SparseHeader) (hp : parseSparseHeader hd 0 = .ok H)
    (hsig : H.sig = kdmv) : startsWith hd kdmv = true := by
  have := (lemma_vmdk_parse_fields hd H hp).1
  unfold startsWith
  have hl : kdmv.length = 4 := by decide
  rw [hl, ← this, hsig]
  simp

theorem lemma_post_formatMatch (foot : Bool) (n : Nat) (hd dd : Bytes) (dl fo : Nat) (fd : Bytes) (fin : Bool)
    (dt : Option Bytes) (vt : Bytes) :
    formatMatch (vPost foot n hd dd dl fo fd fin dt vt) = .ok (startsWith hd kdmv) := by
  cases foot <;> rfl

theorem lemma_post_complete (foot : Bool) (n : Nat) (hd dd : Bytes) (dl fo : Nat) (fd : Bytes)
    (dt : Option Bytes) (vt : Bytes) (hlen : 64 ≤ hd.length) :
    (vPost foot n hd dd dl fo fd true dt vt).complete =
      ((!foot || decide (1536 = fd.length)) && decide (dl = dd.length)) := by
  have hfc : (vFootR fo fd true).complete = decide (1536 = fd.length) := by
    show (decide (1536 = fd.length) && true) = _
    rw [Bool.and_true]
  cases foot <;>
  simp [Insp.complete, vPost, lemma_vmdk_hdr_complete hd hlen, lemma_vmdk_desc_complete, hfc]

theorem lemma_post_vsize (foot : Bool) (n : Nat) (hd dd : Bytes) (dl fo : Nat) (fd : Bytes) (fin : Bool)
    (dt : Option Bytes) (vt : Bytes) (H : SparseHeader) (hp : parseSparseHeader hd 0 = .ok H) :
    virtualSize (vPost foot n hd dd dl fo fd fin dt vt) = .ok (vsizeOn dt vt H.sectors) := by
  obtain ⟨_, hsec, hlen⟩ := lemma_vmdk_parse_fields hd H hp
  have hl : lookupR "header" (vPost foot n hd dd dl fo fd fin dt vt).regions = some (vHdrR hd) := by
    cases foot <;> rfl
  have h44 : (slice hd 0 44).length = 44 := by simp [slice]; omega
  have hs : slice (slice hd 0 44) 12 20 = slice hd 12 20 := by
    simp only [slice, List.drop_zero, List.take_take]
    congr 2
  have hf : (vPost foot n hd dd dl fo fd fin dt vt).fmt = .vmdk := rfl
  have hdt : (vPost foot n hd dd dl fo fd fin dt vt).descText = dt := rfl
  have hvt : (vPost foot n hd dd dl fo fd fin dt vt).vmdkType = vt := rfl
  unfold virtualSize vsizeOn
  rw [hf]
  simp only [hdt, hvt, hl]
  cases dt with
  | none => rfl
  | some t =>
    simp only
    split
    · rfl
    · split
      · rfl
      · have : (vHdrR hd).data = hd := rfl
        simp only [this, h44, ne_eq, not_true_eq_false, if_false, hs, hsec]

/-- the safety-check outcome as a function of completeness, the descriptor check and the footer check -/
def safetyOn (complete foot cd : Bool) (cf : CheckRes) : Safety :=
  if !complete then .refused else
  let fails := (if cd then [] else ["descriptor"]) ++ (if foot && cf != .pass then ["footer"] else [])
  if fails.isEmpty then .ok else .failed fails

theorem lemma_post_safety (foot : Bool) (n : Nat) (hd dd : Bytes) (dl fo : Nat) (fd : Bytes)
    (dt : Option Bytes) (vt : Bytes) (H : SparseHeader) (hp : parseSparseHeader hd 0 = .ok H)
    (hsig : H.sig = kdmv) :
    safetyCheck (vPost foot n hd dd dl fo fd true dt vt) =
      safetyOn (vPost foot n hd dd dl fo fd true dt vt).complete foot (checkDescOn dt vt)
        (CheckRes.ofExcept (footerCheckH H fd)) := by
  unfold safetyCheck safetyOn
  rw [lemma_post_formatMatch, lemma_vmdk_startsWith_kdmv hd H hp hsig]
  split
  · rfl
  · simp only
    have hcd : runCheck (vPost foot n hd dd dl fo fd true dt vt) "descriptor" =
        CheckRes.ofExcept (.ok (checkDescOn dt vt)) := by
      cases foot <;> rfl
    cases foot
    · have hchk : (vPost false n hd dd dl fo fd true dt vt).checks = ["descriptor"] := rfl
      rw [hchk]
      simp only [List.filter_cons, List.filter_nil, hcd, Bool.false_and, Bool.false_eq_true, if_false,
        List.append_nil]
      cases checkDescOn dt vt <;> rfl
    · have hchk : (vPost true n hd dd dl fo fd true dt vt).checks = ["descriptor", "footer"] := rfl
      have hcf : runCheck (vPost true n hd dd dl fo fd true dt vt) "footer" =
          CheckRes.ofExcept (footerCheckH H fd) := by
        have := lemma_checkFooter_eq (vPost true n hd dd dl fo fd true dt vt) (vHdrR hd) (vFootR fo fd true) H
          rfl rfl hp
        show CheckRes.ofExcept (vmdkCheckFooter _) = _
        rw [this]
        rfl
      rw [hchk]
      simp only [List.filter_cons, List.filter_nil, hcd, hcf, Bool.true_and]
      cases checkDescOn dt vt <;> cases CheckRes.ofExcept (footerCheckH H fd) <;> rfl


theorem lemma_err_formatMatch (foot : Bool) (n : Nat) (hd d0 : Bytes) (fin : Bool) (dt : Option Bytes) :
    formatMatch (vErr foot n hd d0 fin dt) = .ok (startsWith hd kdmv) := by
  cases foot <;> rfl

theorem lemma_err_complete (foot : Bool) (n : Nat) (hd d0 : Bytes) (dt : Option Bytes)
    (hlen : 64 ≤ hd.length) (hc : (vDesc0R d0).complete = true) :
    (vErr foot n hd d0 true dt).complete = !foot := by
  have hfc : (vFootR 1536 [] true).complete = false := by decide
  cases foot <;>
  simp [Insp.complete, vErr, lemma_vmdk_hdr_complete hd hlen, hc, hfc]

theorem lemma_err_vsize (foot : Bool) (n : Nat) (hd d0 : Bytes) (fin : Bool) (dt : Option Bytes) :
    virtualSize (vErr foot n hd d0 fin dt) = .ok 0 := by
  have hcon : sparseTypes.contains formatNotFound = false := by decide
  have hf : (vErr foot n hd d0 fin dt).fmt = .vmdk := rfl
  have hdt : (vErr foot n hd d0 fin dt).descText = dt := rfl
  have hvt : (vErr foot n hd d0 fin dt).vmdkType = formatNotFound := rfl
  unfold virtualSize
  rw [hf]
  simp only [hdt, hvt, hcon]
  cases dt with
  | none => rfl
  | some t =>
    simp only
    split <;> rfl

theorem lemma_err_safety (foot : Bool) (n : Nat) (hd d0 : Bytes) (dt : Option Bytes) (H : SparseHeader)
    (hp : parseSparseHeader hd 0 = .ok H) (hsig : H.sig = kdmv) (hc : (vDesc0R d0).complete = true) :
    safetyCheck (vErr foot n hd d0 true dt) = if foot then .refused else .failed ["descriptor"] := by
  have hlen := (lemma_vmdk_parse_fields hd H hp).2.2
  unfold safetyCheck
  rw [lemma_err_complete foot n hd d0 dt hlen hc, lemma_err_formatMatch, lemma_vmdk_startsWith_kdmv hd H hp hsig]
  cases foot
  · have hchk : (vErr false n hd d0 true dt).checks = ["descriptor"] := rfl
    have hcd : runCheck (vErr false n hd d0 true dt) "descriptor" =
        CheckRes.ofExcept (.ok (checkDescOn dt formatNotFound)) := rfl
    simp only [Bool.not_false, Bool.not_true, Bool.false_eq_true, if_false, hchk, List.filter_cons, List.filter_nil, hcd,
      lemma_checkDescOn_fnf]
    rfl
  · rfl

end Oslo.Insp
