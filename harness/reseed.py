"""Re-run a stored seeded change (/verif/seeded/NAME) against the current checks.

usage: reseed.py NAME [--checks C01,C07]

Creates a scratch worktree of /repo under /tmp, copies the stored patch/demo/notes into it,
runs seedtest (suite, demo, checks with VERIF_REPO=<worktree>), refreshes meta.json and removes
the worktree again.
"""
import json
import os
import shutil
import subprocess
import sys

VERIF = os.path.dirname(os.path.dirname(os.path.abspath(__file__)))


def main():
    name = sys.argv[1]
    src = os.path.join(VERIF, 'seeded', name)
    meta = json.load(open(os.path.join(src, 'meta.json')))
    pid = meta['property']
    extra = sys.argv[2:]
    if '--checks' not in extra:
        prev = sorted(meta.get('checks_run', {}).keys()) or [pid]
        extra = ['--checks', ','.join(prev)]
    wt = '/tmp/wtr-' + name
    subprocess.run(['git', '-C', '/repo', 'worktree', 'remove', '--force', wt], stderr=subprocess.DEVNULL)
    shutil.rmtree(wt, ignore_errors=True)
    subprocess.check_call(['git', '-C', '/repo', 'worktree', 'add', '--detach', wt, 'HEAD'],
                          stdout=subprocess.DEVNULL, stderr=subprocess.DEVNULL)
    try:
        sd = os.path.join(wt, '_seed', '1')
        os.makedirs(sd)
        for f in ('patch.diff', 'demo.py', 'notes.md'):
            if os.path.exists(os.path.join(src, f)):
                shutil.copy(os.path.join(src, f), os.path.join(sd, f))
        rc = subprocess.call(['/venv/bin/python', os.path.join(VERIF, 'harness', 'seedtest.py'), pid, wt, '1',
                              '--keep-as', name] + extra)
    finally:
        subprocess.run(['git', '-C', '/repo', 'worktree', 'remove', '--force', wt])
        shutil.rmtree(wt, ignore_errors=True)
        subprocess.run(['git', '-C', '/repo', 'worktree', 'prune'])
    return rc


if __name__ == '__main__':
    sys.exit(main())
