/-
Helper lemmas about the flat regex engine (OsloModel/FlatRegex.lean).
Not property statements: the greedy-first lemma, the exact behaviour of literal
items, "a match consumes segments of the right classes", and the re.sub loop
on a prefix without matches / at a match / on a text without matches.
-/
import OsloModel.FlatRegex
namespace Oslo.Flat

/-! ### tryDown -/

theorem tryDown_first {α} (k : List Char → Option α) (s : List Char) (lo n : Nat) (r : α)
    (hlo : lo ≤ n) (hk : k (s.drop n) = some r) : tryDown k s lo n = some r := by
  cases n with
  | zero => simp at hlo; subst hlo; simpa [tryDown] using hk
  | succ n =>
    have : ¬ (n + 1 < lo) := by omega
    simp [tryDown, this, hk]

theorem tryDown_some {α} (k : List Char → Option α) (s : List Char) (lo : Nat) :
    ∀ (n : Nat) (r : α), tryDown k s lo n = some r → ∃ j, lo ≤ j ∧ j ≤ n ∧ k (s.drop j) = some r := by
  intro n
  induction n with
  | zero =>
    intro r h
    by_cases h0 : lo = 0
    · subst h0; exact ⟨0, by omega, by omega, by simpa [tryDown] using h⟩
    · simp [tryDown, h0] at h
  | succ n ih =>
    intro r h
    unfold tryDown at h
    by_cases hlt : n + 1 < lo
    · simp [hlt] at h
    · simp only [hlt, if_false] at h
      cases hk : k (s.drop (n + 1)) with
      | some r' =>
        rw [hk] at h; cases h
        exact ⟨n + 1, by omega, by omega, hk⟩
      | none =>
        rw [hk] at h
        obtain ⟨j, h1, h2, h3⟩ := ih r h
        exact ⟨j, h1, by omega, h3⟩

theorem tryDown_none {α} (k : List Char → Option α) (s : List Char) (lo : Nat) :
    ∀ (n : Nat), (∀ j, lo ≤ j → j ≤ n → k (s.drop j) = none) → tryDown k s lo n = none := by
  intro n h
  cases hr : tryDown k s lo n with
  | none => rfl
  | some r =>
    obtain ⟨j, h1, h2, h3⟩ := tryDown_some k s lo n r hr
    rw [h j h1 h2] at h3; cases h3

/-! ### runs -/

theorem takeWhile_append_of_all (p : Char → Bool) (r t : List Char) (hr : ∀ c ∈ r, p c = true)
    (ht : ∀ c, t.head? = some c → p c = false) : (r ++ t).takeWhile p = r := by
  induction r with
  | nil =>
    cases t with
    | nil => rfl
    | cons c t => simp [ht c (by simp)]
  | cons a r ih =>
    have ha : p a = true := hr a (by simp)
    simp only [List.cons_append, List.takeWhile, ha]
    rw [ih (fun c hc => hr c (by simp [hc]))]

/-- the run a star/plus item takes on `r ++ t` when `r` is in the class and `t` does not continue it -/
theorem run_unbounded (it : Item) (r t : List Char) (hhi : it.hi = none)
    (hr : ∀ c ∈ r, it.cls.test c = true) (ht : ∀ c, t.head? = some c → it.cls.test c = false) :
    it.run (r ++ t) = r.length := by
  simp [Item.run, hhi, takeWhile_append_of_all _ r t hr ht]

/-! ### matchSeq -/

theorem matchSeq_append {α} (a b : List Item) (k : List Char → Option α) (s : List Char) :
    matchSeq (a ++ b) k s = matchSeq a (matchSeq b k) s := by
  induction a generalizing s with
  | nil => rfl
  | cons it a ih =>
    simp only [List.cons_append, matchSeq]
    congr 1
    funext s'
    exact ih s'

/-- **greedy-first lemma**: a maximal run followed by a successful continuation is taken without
    backtracking -/
theorem matchSeq_cons_greedy {α} (it : Item) (rest : List Item) (k : List Char → Option α)
    (r t : List Char) (v : α) (hhi : it.hi = none) (hlo : it.lo ≤ r.length)
    (hr : ∀ c ∈ r, it.cls.test c = true) (ht : ∀ c, t.head? = some c → it.cls.test c = false)
    (hk : matchSeq rest k t = some v) : matchSeq (it :: rest) k (r ++ t) = some v := by
  simp only [matchSeq]
  rw [run_unbounded it r t hhi hr ht]
  apply tryDown_first _ _ _ _ _ hlo
  simpa using hk

/-- a single-character item (`{1,1}`) behaves exactly like a character test -/
theorem matchSeq_one {α} (c : Cls) (rest : List Item) (k : List Char → Option α) (s : List Char) :
    matchSeq (⟨c, 1, some 1⟩ :: rest) k s =
      match s with
      | [] => none
      | a :: t => if c.test a then matchSeq rest k t else none := by
  cases s with
  | nil => simp [matchSeq, Item.run, tryDown]
  | cons a t =>
    by_cases ha : c.test a = true
    · have hrun : (⟨c, 1, some 1⟩ : Item).run (a :: t) = 1 := by
        simp only [Item.run, List.takeWhile, ha]
        simp only [List.length_cons]; omega
      simp only [matchSeq, hrun, ha, if_true]
      cases hk : matchSeq rest k t with
      | some r => simp [tryDown, hk]
      | none => simp [tryDown, hk]
    · have hrun : (⟨c, 1, some 1⟩ : Item).run (a :: t) = 0 := by
        simp [Item.run, List.takeWhile, ha]
      simp [matchSeq, hrun, ha, tryDown]

/-- an optional single character (`{0,1}`) that is present and followed by a successful continuation -/
theorem matchSeq_opt_take {α} (c : Cls) (rest : List Item) (k : List Char → Option α) (a : Char)
    (t : List Char) (v : α) (ha : c.test a = true) (hk : matchSeq rest k t = some v) :
    matchSeq (⟨c, 0, some 1⟩ :: rest) k (a :: t) = some v := by
  have hrun : (⟨c, 0, some 1⟩ : Item).run (a :: t) = 1 := by
    simp only [Item.run, List.takeWhile, ha]
    simp only [List.length_cons]; omega
  simp [matchSeq, hrun, tryDown, hk]

/-- an optional single character that is absent -/
theorem matchSeq_opt_skip {α} (c : Cls) (rest : List Item) (k : List Char → Option α)
    (t : List Char) (ht : ∀ a, t.head? = some a → c.test a = false) :
    matchSeq (⟨c, 0, some 1⟩ :: rest) k t = matchSeq rest k t := by
  have hrun : (⟨c, 0, some 1⟩ : Item).run t = 0 := by
    cases t with
    | nil => simp [Item.run]
    | cons a t => simp [Item.run, List.takeWhile, ht a (by simp)]
  simp [matchSeq, hrun, tryDown]

/-- `s` starts with segments matching `items` one by one, leaving `s'` -/
inductive Consumes : List Item → List Char → List Char → Prop
  | nil (s : List Char) : Consumes [] s s
  | cons (it : Item) (rest : List Item) (seg s1 s' : List Char)
      (hseg : ∀ c ∈ seg, it.cls.test c = true) (hlo : it.lo ≤ seg.length)
      (hhi : ∀ m, it.hi = some m → seg.length ≤ m)
      (hrest : Consumes rest s1 s') : Consumes (it :: rest) (seg ++ s1) s'

theorem mem_takeWhile_true (p : Char → Bool) : ∀ (s : List Char) (c : Char), c ∈ s.takeWhile p → p c = true := by
  intro s
  induction s with
  | nil => intro c h; simp at h
  | cons a s ih =>
    intro c h
    by_cases ha : p a = true
    · simp only [List.takeWhile, ha, List.mem_cons] at h
      rcases h with h | h
      · subst h; exact ha
      · exact ih c h
    · simp [List.takeWhile, ha] at h

theorem length_takeWhile_le' (p : Char → Bool) : ∀ (s : List Char), (s.takeWhile p).length ≤ s.length := by
  intro s
  induction s with
  | nil => simp
  | cons a s ih =>
    by_cases ha : p a = true
    · simp only [List.takeWhile, ha, List.length_cons]; omega
    · simp [List.takeWhile, ha]

theorem take_all_of_le_run (it : Item) (s : List Char) (j : Nat) (hj : j ≤ it.run s) :
    ∀ c ∈ s.take j, it.cls.test c = true := by
  intro c hc
  have hle : j ≤ (s.takeWhile it.cls.test).length := by
    unfold Item.run at hj
    cases h : it.hi with
    | none => simpa [h] using hj
    | some m => simp only [h] at hj; omega
  have hpre : s.take j = (s.takeWhile it.cls.test).take j := by
    have h1 : s = s.takeWhile it.cls.test ++ s.dropWhile it.cls.test := List.takeWhile_append_dropWhile.symm
    conv => lhs; rw [h1]
    rw [List.take_append_of_le_length hle]
  rw [hpre] at hc
  exact mem_takeWhile_true _ _ _ (List.mem_of_mem_take hc)

theorem run_le_length (it : Item) (s : List Char) : it.run s ≤ s.length := by
  have := length_takeWhile_le' it.cls.test s
  unfold Item.run
  cases it.hi with
  | none => simpa using this
  | some m => simp only; omega

/-- a successful match consumed segments of the right classes and lengths -/
theorem matchSeq_some {α} (items : List Item) (k : List Char → Option α) :
    ∀ (s : List Char) (v : α), matchSeq items k s = some v → ∃ s', Consumes items s s' ∧ k s' = some v := by
  induction items with
  | nil => intro s v h; exact ⟨s, .nil s, h⟩
  | cons it rest ih =>
    intro s v h
    simp only [matchSeq] at h
    obtain ⟨j, hlo, hj, hk⟩ := tryDown_some _ _ _ _ _ h
    obtain ⟨s', hc, hk'⟩ := ih _ _ hk
    refine ⟨s', ?_, hk'⟩
    have hs : s = s.take j ++ s.drop j := (List.take_append_drop j s).symm
    rw [hs]
    have hlen := run_le_length it s
    refine .cons it rest _ _ _ (take_all_of_le_run it s j hj) ?_ ?_ hc
    · simp [List.length_take]; omega
    · intro m hm
      have : it.run s ≤ m := by
        unfold Item.run; simp only [hm]; omega
      simp [List.length_take]; omega

theorem Consumes.length_le {items s s'} (h : Consumes items s s') : s'.length ≤ s.length := by
  induction h with
  | nil => exact Nat.le_refl _
  | cons it rest seg s1 s' _ _ _ _ ih => simp; omega

theorem Consumes.append {a b s s1 s2} (h1 : Consumes a s s1) (h2 : Consumes b s1 s2) :
    Consumes (a ++ b) s s2 := by
  induction h1 with
  | nil => exact h2
  | cons it rest seg s1 s' hseg hlo hhi _ ih => exact .cons it _ seg s1 _ hseg hlo hhi (ih h2)

theorem Consumes.split {a b : List Item} : ∀ {s s2}, Consumes (a ++ b) s s2 →
    ∃ s1, Consumes a s s1 ∧ Consumes b s1 s2 := by
  induction a with
  | nil => intro s s2 h; exact ⟨s, .nil s, h⟩
  | cons it a ih =>
    intro s s2 h
    cases h with
    | cons _ _ seg s1 _ hseg hlo hhi hrest =>
      obtain ⟨m, h1, h2⟩ := ih hrest
      exact ⟨m, .cons it a seg s1 m hseg hlo hhi h1, h2⟩

/-! ### the re.sub loop -/

theorem subAux_skip (m : List Char → Option (Nat × List Char)) :
    ∀ (a b : List Char), subAux m a.length (a ++ b) = subAux m 0 b := by
  intro a
  induction a with
  | nil => intro b; rfl
  | cons x a ih => intro b; simp only [List.length_cons, List.cons_append, subAux]; exact ih b

/-- no match starts inside `pre`: it is copied unchanged -/
theorem subAux_prefix (m : List Char → Option (Nat × List Char)) (rest : List Char) :
    ∀ (pre : List Char), (∀ j, j < pre.length → m (pre.drop j ++ rest) = none) →
      subAux m 0 (pre ++ rest) = pre ++ subAux m 0 rest := by
  intro pre
  induction pre with
  | nil => intro _; rfl
  | cons c pre ih =>
    intro h
    have h0 : m (c :: pre ++ rest) = none := by simpa using h 0 (by simp)
    have hrest : subAux m 0 (pre ++ rest) = pre ++ subAux m 0 rest :=
      ih (fun j hj => by simpa using h (j + 1) (by simp; omega))
    simp only [List.cons_append, subAux] at h0 ⊢
    rw [h0]
    simp only [List.cons.injEq, true_and]
    exact hrest

/-- a non-empty match at the current position: its replacement, then the scan resumes after it -/
theorem subAux_match (m : List Char → Option (Nat × List Char)) (a b r : List Char)
    (ha : a ≠ []) (hm : m (a ++ b) = some (a.length, r)) :
    subAux m 0 (a ++ b) = r ++ subAux m 0 b := by
  cases a with
  | nil => exact absurd rfl ha
  | cons x a =>
    simp only [List.cons_append, List.length_cons] at hm ⊢
    simp only [subAux, hm]
    rw [subAux_skip]

/-- no match anywhere: the text is unchanged -/
theorem subAux_none (m : List Char → Option (Nat × List Char)) :
    ∀ (s : List Char), (∀ j, j ≤ s.length → m (s.drop j) = none) → subAux m 0 s = s := by
  intro s
  induction s with
  | nil => intro h; have := h 0 (by simp); simp only [List.drop] at this; simp [subAux, this]
  | cons c s ih =>
    intro h
    have h0 : m (c :: s) = none := by simpa using h 0 (by simp)
    simp only [subAux, h0]
    rw [ih (fun j hj => by simpa using h (j + 1) (by simp; omega))]

theorem Consumes.suffix {items s s'} (h : Consumes items s s') : ∃ a, s = a ++ s' := by
  induction h with
  | nil s => exact ⟨[], rfl⟩
  | cons it rest seg s1 s' _ _ _ _ ih =>
    obtain ⟨a, ha⟩ := ih
    exact ⟨seg ++ a, by rw [ha, List.append_assoc]⟩

/-- what a successful `matchPat` says about the text -/
theorem matchPat_some (p : Pattern) (s : List Char) (b : Bounds) (h : matchPat p s = some b) :
    ∃ s1 s2 s3, Consumes p.g1 s s1 ∧ Consumes p.mid s1 s2 ∧ Consumes p.g2 s2 s3 ∧
      b = ⟨s1.length, s2.length, s3.length⟩ := by
  unfold matchPat at h
  obtain ⟨s1, c1, h1⟩ := matchSeq_some _ _ _ _ h
  obtain ⟨s2, c2, h2⟩ := matchSeq_some _ _ _ _ h1
  obtain ⟨s3, c3, h3⟩ := matchSeq_some _ _ _ _ h2
  exact ⟨s1, s2, s3, c1, c2, c3, by cases h3; rfl⟩

theorem take_length_sub (a b : List Char) : (a ++ b).take ((a ++ b).length - b.length) = a := by
  have : (a ++ b).length - b.length = a.length := by simp
  rw [this]; simp

theorem drop_length_sub (a b : List Char) : (a ++ b).drop ((a ++ b).length - b.length) = b := by
  have : (a ++ b).length - b.length = a.length := by simp
  rw [this]; simp

theorem head_append_of_all (p : Char → Bool) (a b : List Char) (ha : ∀ c ∈ a, p c = false)
    (hb : ∀ c, b.head? = some c → p c = false) : ∀ c, (a ++ b).head? = some c → p c = false := by
  intro c hc
  cases a with
  | nil => exact hb c (by simpa using hc)
  | cons x a => simp at hc; subst hc; exact ha _ (by simp)

theorem matchRepl_none (p : Pattern) (rep : List RepTok) (mask s : List Char)
    (h : matchPat p s = none) : matchRepl p rep mask s = none := by
  simp [matchRepl, h]


/-! ### one rendering: prefix without match, the match, suffix without match -/

/-- the replacement of a match whose group boundaries are `A | B | C` -/
theorem matchRepl_of_bounds (p : Pattern) (rep : List RepTok) (mask A B C post : List Char)
    (h : matchPat p (A ++ (B ++ (C ++ post)))
      = some ⟨(B ++ (C ++ post)).length, (C ++ post).length, post.length⟩) :
    matchRepl p rep mask (A ++ (B ++ (C ++ post))) = some ((A ++ (B ++ C)).length, expand rep A C mask) := by
  simp only [matchRepl, h]
  have h1 : (A ++ (B ++ (C ++ post))).length - post.length = (A ++ (B ++ C)).length := by
    simp only [List.length_append]; omega
  have h2 : List.take ((A ++ (B ++ (C ++ post))).length - (B ++ (C ++ post)).length) (A ++ (B ++ (C ++ post))) = A :=
    take_length_sub A _
  have h3 : List.drop ((A ++ (B ++ (C ++ post))).length - (C ++ post).length) (A ++ (B ++ (C ++ post))) = C ++ post := by
    have e : A ++ (B ++ (C ++ post)) = (A ++ B) ++ (C ++ post) := by simp
    rw [e]; exact drop_length_sub _ _
  have h4 : List.take ((C ++ post).length - post.length) (C ++ post) = C := take_length_sub C post
  rw [h1, h2, h3, h4]

/-- `re.sub` on `pre ++ A ++ B ++ C ++ post` when no match starts in `pre`, the pattern matches `A|B|C`
    there, and nothing matches in `post` -/
theorem subPat_rendering (p : Pattern) (rep : List RepTok) (mask pre A B C post : List Char)
    (hne : A ++ (B ++ C) ≠ [])
    (hpre : ∀ j, j < pre.length → matchPat p (pre.drop j ++ (A ++ (B ++ (C ++ post)))) = none)
    (hm : matchPat p (A ++ (B ++ (C ++ post)))
      = some ⟨(B ++ (C ++ post)).length, (C ++ post).length, post.length⟩)
    (hpost : subPat p rep mask post = post) :
    subPat p rep mask (pre ++ (A ++ (B ++ (C ++ post)))) = pre ++ (expand rep A C mask ++ post) := by
  unfold subPat at hpost ⊢
  rw [subAux_prefix _ _ _ (fun j hj => matchRepl_none _ _ _ _ (hpre j hj))]
  congr 1
  have e : A ++ (B ++ (C ++ post)) = (A ++ (B ++ C)) ++ post := by simp
  have hr := matchRepl_of_bounds p rep mask A B C post hm
  rw [e] at hr ⊢
  rw [subAux_match _ _ _ _ hne hr, hpost]

/-! ### inversions of `Consumes` -/

/-- a mandatory item (`lo ≥ 1`) consumed at least one character of its class -/
theorem Consumes.exists_mem {items s s'} (h : Consumes items s s') (it : Item) (hit : it ∈ items)
    (hlo : 1 ≤ it.lo) : ∃ c ∈ s, it.cls.test c = true := by
  induction h with
  | nil => simp at hit
  | cons it' rest seg s1 s' hseg hlo' _ _ ih =>
    rcases List.mem_cons.1 hit with h | h
    · subst h
      cases seg with
      | nil => simp at hlo'; omega
      | cons x xs => exact ⟨x, by simp, hseg x (by simp)⟩
    · obtain ⟨c, hc, ht⟩ := ih h
      exact ⟨c, by simp [hc], ht⟩

/-- a pattern with a mandatory item whose class does not occur in the text cannot match it -/
theorem matchPat_none_of_missing (p : Pattern) (s : List Char) (it : Item)
    (hit : it ∈ p.g1 ++ (p.mid ++ p.g2)) (hlo : 1 ≤ it.lo) (hs : ∀ c ∈ s, it.cls.test c = false) :
    matchPat p s = none := by
  cases hm : matchPat p s with
  | none => rfl
  | some b =>
    obtain ⟨s1, s2, s3, c1, c2, c3, _⟩ := matchPat_some _ _ _ hm
    obtain ⟨c, hc, ht⟩ := (c1.append (c2.append c3)).exists_mem it hit hlo
    rw [hs c hc] at ht; cases ht

theorem Consumes.one_inv {c : Cls} {rest : List Item} {s s' : List Char}
    (h : Consumes (⟨c, 1, some 1⟩ :: rest) s s') : ∃ a t, s = a :: t ∧ c.test a = true ∧ Consumes rest t s' := by
  cases h with
  | cons _ _ seg s1 _ hseg hlo hhi hrest =>
    have h1 : seg.length = 1 := by have := hhi 1 rfl; simp at hlo; omega
    match seg, h1 with
    | [a], _ => exact ⟨a, s1, rfl, hseg a (by simp), hrest⟩

/-- an unbounded repeat on `r ++ t` (`r` in the class, `t` not continuing it) consumed a prefix of `r` -/
theorem Consumes.star_inv {it : Item} {rest : List Item} {r t s' : List Char}
    (h : Consumes (it :: rest) (r ++ t) s') (ht : ∀ c, t.head? = some c → it.cls.test c = false) :
    ∃ j, it.lo ≤ j ∧ j ≤ r.length ∧ Consumes rest (r.drop j ++ t) s' := by
  generalize hs : r ++ t = s at h
  cases h with
  | cons _ _ seg s1 _ hseg hlo hhi hrest =>
    -- seg is a prefix of r
    have hle : seg.length ≤ r.length := by
      by_cases hgt : seg.length ≤ r.length
      · exact hgt
      · exfalso
        have hlt : r.length < seg.length := by omega
        -- the character of seg at position r.length is the head of t
        have h1 : (r ++ t)[r.length]? = (seg ++ s1)[r.length]? := by rw [hs]
        rw [List.getElem?_append_right (Nat.le_refl _), Nat.sub_self,
            List.getElem?_append_left hlt] at h1
        have hx : seg[r.length]? = some seg[r.length] := List.getElem?_eq_getElem hlt
        rw [hx] at h1
        have hhead : t.head? = some seg[r.length] := by
          cases t with
          | nil => simp at h1
          | cons y ys => simpa using h1
        have := ht _ hhead
        rw [hseg _ (List.getElem_mem hlt)] at this
        cases this
    refine ⟨seg.length, hlo, hle, ?_⟩
    have h2 : r = seg ++ r.drop seg.length := by
      have h3 : (r ++ t).take seg.length = (seg ++ s1).take seg.length := by rw [hs]
      rw [List.take_append_of_le_length hle, List.take_left'] at h3
      · conv => lhs; rw [← List.take_append_drop seg.length r, h3]
      · rfl
    have h4 : s1 = r.drop seg.length ++ t := by
      have h5 : (r ++ t).drop seg.length = (seg ++ s1).drop seg.length := by rw [hs]
      rw [List.drop_append_of_le_length hle, List.drop_left'] at h5
      · exact h5.symm
      · rfl
    rw [← h4]; exact hrest

end Oslo.Flat
