import OsloModel.Proto
import OsloModel.Mask
import OsloModel.MaskDict
open Oslo Oslo.Proto Oslo.Flat Oslo.Mask Oslo.MaskDict

/-
Requests (fields TAB-separated, text hex-encoded UTF-8, "-" = empty):
  mask  <msg> <secret>                     -> ok <result> | unmodelled
  sub   <2|1|W> <index> <key> <msg> <secret> -> ok <result> | unmodelled     (one pattern, one re.sub)
  lower <msg>                              -> ok <str.lower(msg)>
  dict  <tree> <secret>                    -> ok <tree> | TypeError | unmodelled
Tree tokens (space-separated, prefix order): S:<hex> str, O:<id> other object,
M:<n> mapping followed by n (key, value) pairs; keys K:<hex> str, X:<id> other.
-/

def hasBackslash (s : List Char) : Bool := s.any (· == '\\')

def okChars (s : List Char) : String := "ok\t" ++ hexChars s

partial def parseVal : List String → Option (PyVal × List String)
  | [] => none
  | tok :: rest =>
    match tok.splitOn ":" with
    | ["S", h] => (unhexChars h).map (fun s => (PyVal.str s, rest))
    | ["O", n] => n.toNat?.map (fun i => (PyVal.opaque i, rest))
    | ["M", n] =>
      match n.toNat? with
      | none => none
      | some cnt =>
        let rec go (cnt : Nat) (toks : List String) (acc : List (PyKey × PyVal)) :
            Option (List (PyKey × PyVal) × List String) :=
          if cnt = 0 then some (acc.reverse, toks) else
          match toks with
          | [] => none
          | kt :: toks' =>
            let key : Option PyKey :=
              match kt.splitOn ":" with
              | ["K", h] => (unhexChars h).map PyKey.str
              | ["X", i] => i.toNat?.map PyKey.other
              | _ => none
            match key with
            | none => none
            | some k =>
              match parseVal toks' with
              | none => none
              | some (v, toks'') => go (cnt - 1) toks'' ((k, v) :: acc)
        (go cnt rest []).map (fun (items, r) => (PyVal.map items, r))
    | _ => none

def showKey : PyKey → String
  | .str s => "K:" ++ hexChars s
  | .other i => s!"X:{i}"

partial def showVal : PyVal → String
  | .str s => "S:" ++ hexChars s
  | .opaque i => s!"O:{i}"
  | .map items =>
    String.intercalate " " (s!"M:{items.length}" :: items.map (fun (k, v) => showKey k ++ " " ++ showVal v))

def pickList (which : String) : Option (List Template × List RepTok) :=
  if which = "2" then some (Gen.patterns2, rep2)
  else if which = "1" then some (Gen.patterns1, rep1)
  else if which = "W" then some (Gen.patternsWildcard, repW)
  else none

def handle : List String → String
  | ["mask", m, s] =>
    match unhexChars m, unhexChars s with
    | some msg, some mask =>
      if hasBackslash mask then "unmodelled" else okChars (maskPassword msg mask)
    | _, _ => "bad-request"
  | ["sub", which, idx, k, m, s] =>
    match pickList which, idx.toNat?, unhexChars k, unhexChars m, unhexChars s with
    | some (ts, rep), some i, some key, some msg, some mask =>
      match ts[i]? with
      | none => "bad-request"
      | some t =>
        if hasBackslash mask then "unmodelled"
        else okChars (subPat (t.inst (keyItems key)) rep mask msg)
    | _, _, _, _, _ => "bad-request"
  | ["lower", m] =>
    match unhexChars m with
    | some msg => okChars (pyLower msg)
    | none => "bad-request"
  | ["dict", t, s] =>
    match parseVal (if t = "-" then [] else t.splitOn " "), unhexChars s with
    | some (v, []), some mask =>
      if hasBackslash mask then "unmodelled" else
      match maskDict v mask with
      | .ok r => "ok\t" ++ showVal r
      | .error .typeError => "TypeError"
    | _, _ => "bad-request"
  | _ => "bad-request"

def main : IO Unit := serve handle
