/-
C07 — virtual_size equals the declared size.

PLACEHOLDER written by the harness builder so that `./check C07` can run its
correspondence and failing-input search; the coordinator's theorem file replaces it.
Nothing here is a C07 obligation.
-/
import OsloModel.Wrapper
namespace Oslo.Insp

/-- placeholder: every format of the model has an inspector, i.e. the generated table of
    registered safety checks is non-empty for each of them (`__init__` does not raise) -/
theorem placeholder_init_formats : ∀ f ∈ Fmt.all, (Insp.init f).isSome = true := by decide

end Oslo.Insp
