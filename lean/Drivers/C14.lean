import OsloModel.Proto
import OsloModel.Scalars
open Oslo Oslo.Scalars Oslo.Proto

/-
Requests (TAB separated).  A value field is
  s:<hex text> | b:0 | b:1 | i:<decimal> | o:<hex str() text>:<ok=<decimal>|TypeError|ValueError|OverflowError>
  bool     <val> <strict 0|1>        -> val:1 | val:0 | default | <Error>
  boolstr  <val>                     -> 1 | 0 | <Error>
  boolT / boolstrT / intboolT <true words> <false words> <val> [<strict>]   -- with the tables in force (`-` | hex,hex,…)
  intbool  <val>                     -> 1 | 0 | <Error>
  intlike  <val>                     -> 1 | 0
  valint   <val> <min|N> <max|N>     -> ok:<n> | <Error>     bounds: <p>/<q> | +inf | -inf | nan | dnan
  strlen   <val> <min> <max|N>       -> ok | <Error>
  uuid     <val>                     -> 1 | 0
  int      <10|16> <hex text>        -> ok:<n> | ValueError          (primitive)
  strip / lower / fmtuuid <hex text> -> <hex text>   (primitives; fmtuuid = _format_uuid_string)
  str      <decimal>                 -> <hex text> | ValueError       (primitive)
-/

def showErr : ErrKind → String
  | .valueError => "ValueError" | .typeError => "TypeError" | .overflowError => "OverflowError"
  | .invalidOperation => "InvalidOperation"

def parseErr : String → Option ErrKind
  | "ValueError" => some .valueError | "TypeError" => some .typeError
  | "OverflowError" => some .overflowError | _ => none

def parseVal (f : String) : Option PyVal :=
  match f.splitOn ":" with
  | ["s", h] => (unhexChars h).map .str
  | ["b", "0"] => some (.bool false)
  | ["b", "1"] => some (.bool true)
  | ["i", d] => d.toInt?.map .int
  | ["o", h, r] =>
    match unhexChars h with
    | none => none
    | some t =>
      if r.startsWith "ok=" then ((r.drop 3).toString.toInt?).map (fun n => .other t (.ok n))
      else (parseErr r).map (fun e => .other t (.error e))
  | _ => none

/-- a bound field: `<p>/<q>` (q > 0) | `+inf` | `-inf` | `nan` | `dnan` -/
def parseBound (f : String) : Option Bound :=
  if f = "+inf" then some .posInf
  else if f = "-inf" then some .negInf
  else if f = "nan" then some .nan
  else if f = "dnan" then some .decNan
  else
    match f.splitOn "/" with
    | [p, q] =>
      match p.toInt?, q.toNat? with
      | some p, some q => if q = 0 then none else some (.fin p q)
      | _, _ => none
    | _ => none

/-- `N` = None -/
def optBound (f : String) : Option (Option Bound) :=
  if f = "N" then some none else (parseBound f).map some

/-- a word table: `-` (empty) or hex words separated by `,`; `.` is the empty word -/
def parseWords (f : String) : Option (List (List Char)) :=
  if f = "-" then some []
  else (f.splitOn ",").mapM (fun w => if w = "." then some [] else unhexChars w)

def bit (b : Bool) : String := if b then "1" else "0"

def handle : List String → String
  | ["bool", v, st] =>
    match parseVal v, st with
    | some v, "0" | some v, "1" =>
      match boolFromString v (st == "1") with
      | .ok (.val b) => "val:" ++ bit b
      | .ok .dflt => "default"
      | .error e => showErr e
    | _, _ => "bad-request"
  | ["boolT", ts, fs, v, st] =>
    match parseWords ts, parseWords fs, parseVal v, st with
    | some ts, some fs, some v, "0" | some ts, some fs, some v, "1" =>
      match boolFromStringT ts fs v (st == "1") with
      | .ok (.val b) => "val:" ++ bit b
      | .ok .dflt => "default"
      | .error e => showErr e
    | _, _, _, _ => "bad-request"
  | ["boolstrT", ts, fs, v] =>
    match parseWords ts, parseWords fs, parseVal v with
    | some ts, some fs, some v =>
      match isValidBoolstrT ts fs v with
      | .ok b => bit b
      | .error e => showErr e
    | _, _, _ => "bad-request"
  | ["intboolT", ts, fs, v] =>
    match parseWords ts, parseWords fs, parseVal v with
    | some ts, some fs, some v =>
      match intFromBoolAsStringT ts fs v with
      | .ok n => toString n
      | .error e => showErr e
    | _, _, _ => "bad-request"
  | ["boolstr", v] =>
    match parseVal v with
    | some v => match isValidBoolstr v with
                | .ok b => bit b
                | .error e => showErr e
    | none => "bad-request"
  | ["intbool", v] =>
    match parseVal v with
    | some v => match intFromBoolAsString v with
                | .ok n => toString n
                | .error e => showErr e
    | none => "bad-request"
  | ["intlike", v] =>
    match parseVal v with
    | some v => bit (isIntLike v)
    | none => "bad-request"
  | ["valint", v, lo, hi] =>
    match parseVal v, optBound lo, optBound hi with
    | some v, some lo, some hi =>
      match validateInteger v lo hi with
      | .ok n => s!"ok:{n}"
      | .error e => showErr e
    | _, _, _ => "bad-request"
  | ["strlen", v, lo, hi] =>
    match parseVal v, parseBound lo, optBound hi with
    | some v, some lo, some hi =>
      match checkStringLength v lo hi with
      | .ok _ => "ok"
      | .error e => showErr e
    | _, _, _ => "bad-request"
  | ["uuid", v] =>
    match parseVal v with
    | some v => bit (isUuidLike v)
    | none => "bad-request"
  | ["int", b, h] =>
    match (if b = "10" then some 10 else if b = "16" then some 16 else none), unhexChars h with
    | some b, some s => match pyIntParse b s with
                        | some n => s!"ok:{n}"
                        | none => "ValueError"
    | _, _ => "bad-request"
  | ["strip", h] => match unhexChars h with
                    | some s => hexChars (pyStrip s)
                    | none => "bad-request"
  | ["lower", h] => match unhexChars h with
                    | some s => hexChars (pyLower s)
                    | none => "bad-request"
  | ["fmtuuid", h] => match unhexChars h with
                      | some s => hexChars (pyLower (uuidUndecorate s))
                      | none => "bad-request"
  | ["str", d] => match d.toInt? with
                  | some n => match pyStrInt n with
                              | .ok t => hexChars t
                              | .error e => showErr e
                  | none => "bad-request"
  | _ => "bad-request"

def main : IO Unit := serve handle
